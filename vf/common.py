"""Helpers shared by the property modules: case -> Shaper arguments, selection, labels, model."""
from hypothesis import strategies as st
from . import sut, oracle, refmodel, shexc
from .rdfmodel import triples_from_json, to_nt, RDF_TYPE
from . import gen_graph as gg


def expanded(case):
    """shallow copy of the case with a compactly stored graph ({"scale": ...}) expanded; the case object itself (what gets
    recorded as replay / sample) stays compact"""
    if "scale" in case["g"] or "ladder" in case["g"]:
        return dict(case, g=gg.expand(case["g"]))
    return case


def doc_triples(case, triples):
    """the statement list of the document: the abstract triples plus the re-stated ones (case["dups"] = [[index of the statement
    to repeat, position of the copy], ...]); a document may state a triple more than once, the graph is still the set"""
    doc = list(triples)
    for i, pos in case.get("dups") or []:
        doc.insert(pos % (len(doc) + 1), triples[i % len(triples)])
    return doc


@st.composite
def dups(draw, g, type_only=None):
    """0-3 statements to repeat; type_only: None = any statement, True = only instantiation statements"""
    n = len(g["triples"])
    idx = [i for i in range(n) if (not type_only) or g["triples"][i][1] == g["inst_prop"]]
    if not idx:
        return []
    k = draw(st.integers(1, 3))
    return [[draw(st.sampled_from(idx)), draw(st.integers(0, n + 3))] for _ in range(k)]


def restated_values(case):
    """True if a re-stated statement of the case is (also) a re-stated VALUE statement - the known finding C01-DUPVALUE: any
    statement whose predicate is not the instantiation property, or a typing statement whose class is itself a typed node (the
    statement is then an incoming 'instantiation' link of that node, counted per statement when inverse paths are on)"""
    g = gg.expand(case["g"])
    tr = g["triples"]
    typed = {t[0][1] for t in tr if t[1] == g["inst_prop"]}
    for i, _ in case.get("dups") or []:
        t = tr[i % len(tr)]
        if t[1] != g["inst_prop"] or t[2][1] in typed:
            return True
    return False


def base_kwargs(case):
    g = gg.expand(case["g"])
    triples = triples_from_json(g["triples"])
    kw = dict(raw_graph=to_nt(doc_triples(case, triples)), instantiation_property=g["inst_prop"])
    kw.update(case.get("cfg", {}))
    tgt = case.get("target", {"mode": "all"})
    if tgt["mode"] == "all":
        kw["all_classes_mode"] = True
    else:
        kw["target_classes"] = list(tgt["classes"])
    return kw, triples


LINE_CHANNELS = ["raw", "raw", "file", "tsv", "turtle_iter", "files", "zip"]     # readers that keep the document order


def deliver(kw, doc, chan, tmpdir):
    """replace the raw N-Triples document in kw by the same statements delivered through another channel"""
    from .rdfmodel import to_tsv, to_simple_turtle, to_rdflib
    import os
    kw = dict(kw)
    if chan == "raw":
        return kw
    kw.pop("raw_graph", None)
    if chan == "file":
        path = os.path.join(tmpdir, "doc.nt")
        with open(path, "w", encoding="utf-8") as f:
            f.write(to_nt(doc))
        kw["graph_file_input"] = path
    elif chan in ("files", "zip"):
        # the document is cut into three consecutive parts; the file / member names are NOT in alphabetical order, the
        # document order is the listed order
        import zipfile
        k = max(1, (len(doc) + 2) // 3)
        parts = [doc[i:i + k] for i in range(0, len(doc), k)] or [[]]
        names = ["part_m.nt", "part_a.nt", "part_z.nt", "part_c.nt"][:len(parts)]
        if chan == "files":
            paths = []
            for nm, pt in zip(names, parts):
                pth = os.path.join(tmpdir, nm)
                with open(pth, "w", encoding="utf-8") as f:
                    f.write(to_nt(pt))
                paths.append(pth)
            kw["graph_list_of_files_input"] = paths
        else:
            pth = os.path.join(tmpdir, "doc.zip")
            with zipfile.ZipFile(pth, "w") as z:
                for nm, pt in zip(names, parts):
                    z.writestr(nm, to_nt(pt))
            kw["graph_file_input"] = pth
            kw["compression_mode"] = "zip"
    elif chan == "tsv":
        kw["raw_graph"] = to_tsv(doc)
        kw["input_format"] = "tsv_spo"
    elif chan == "turtle_iter":
        kw["raw_graph"] = to_simple_turtle(doc, {"ex": "http://ex.org/"}, layout=len(doc) % 4)
        kw["input_format"] = "turtle_iter"
    elif chan == "rdflib":
        kw["rdflib_graph"] = to_rdflib(doc)
    else:
        raise ValueError(chan)
    return kw


def deliver_split(kw, triples, inst_prop, bare, tmpdir):
    """class membership from a separate file (instances_file_input = the typing statements); the graph file holds the other
    statements, minus those whose subject is one of the `bare` node indices (such instances have no triple of their own, so
    their shapes come out empty and every reference to them must be cleaned)"""
    import os
    kw = dict(kw)
    kw.pop("raw_graph", None)
    subjects = []
    for s, p, o in triples:
        if p == inst_prop and s[1] not in subjects:
            subjects.append(s[1])
    hollow = []
    if isinstance(bare, dict):
        bare, hollow = bare.get("bare", []), bare.get("hollow", [])
    drop = {subjects[i % len(subjects)] for i in bare} if subjects else set()
    # hollow classes: EVERY instance of the class is bare, so the class shape is empty and removed at profiling time
    classes = []
    for s, p, o in triples:
        if p == inst_prop and o[1] not in classes:
            classes.append(o[1])
    for j in hollow:
        if classes:
            c = classes[j % len(classes)]
            drop |= {s[1] for s, p, o in triples if p == inst_prop and o[1] == c}
    pi = os.path.join(tmpdir, "instances.nt")
    with open(pi, "w", encoding="utf-8") as f:
        f.write(to_nt([t for t in triples if t[1] == inst_prop]))
    pg = os.path.join(tmpdir, "graph.nt")
    with open(pg, "w", encoding="utf-8") as f:
        f.write(to_nt([t for t in triples if t[1] != inst_prop and t[0][1] not in drop]))
    kw["graph_file_input"] = pg
    kw["instances_file_input"] = pi
    return kw


def selection(case, triples, cap=None):
    g = case["g"]
    tgt = case.get("target", {"mode": "all"})
    targets = None if tgt["mode"] == "all" else set(tgt["classes"])
    return refmodel.select_by_classes(triples, g["inst_prop"], targets, cap)


def labels_for(sel, shapes_ns=refmodel.SHAPES_NS):
    return {c: refmodel.class_label(c, shapes_ns) for c in sel}


def model_for(case, triples, sel=None, label_of=None):
    sel = selection(case, triples) if sel is None else sel
    label_of = labels_for(sel, case.get("cfg", {}).get("shapes_namespace", refmodel.SHAPES_NS)) if label_of is None else label_of
    M = refmodel.Model(triples, sel, label_of, case["g"]["inst_prop"], case.get("cfg", {}).get("inverse_paths", False))
    return M, sel, label_of


@st.composite
def target_spec(draw, g, allow_all=True, p_all=0.5):
    classes = g["classes"]
    if allow_all and draw(st.floats(0, 1)) < p_all:
        return {"mode": "all"}
    named = [c for c in classes if not c.startswith("_:")]
    if not named:
        return {"mode": "all"}       # a blank-node class cannot be named in target_classes
    sub = draw(st.lists(st.sampled_from(named), min_size=1, max_size=len(named), unique=True))
    return {"mode": "classes", "classes": sub}


def label_features(triples, sel, M):
    """classifier labels describing the graph (used for generator tuning / non-triviality)"""
    labs = set()
    memb = {}
    for S, nodes in sel.items():
        for n in nodes:
            memb[n] = memb.get(n, 0) + 1
    if any(v > 1 for v in memb.values()):
        labs.add("multi-typed")
    if any(n.startswith("_:") for n in memb):
        labs.add("bnode-instance")
    for S in sel:
        for dp, kinds in M.plus[S].items():
            if M.both[S][dp]:
                labs.add("both-kinds-one-instance")
            if ("kind", "IRI") in kinds and ("kind", "BNode") in kinds:
                labs.add("mixed-kinds")
            if dp[0] == "i":
                labs.add("inverse")
            for k, h in M.hist[S][dp].items():
                if any(c > 1 and n < M.N[S] for c, n in h.items()):
                    labs.add("card>1-below-100")
                if k[0] == "ref":
                    labs.add("shape-ref")
                if k[0] == "dt" and k[1].endswith("langString"):
                    labs.add("lang-literal")
    return labs
