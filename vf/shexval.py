"""Prototype ShEx validator for the emitted subset (greatest fixed point)."""
from collections import defaultdict
RDF_LANGSTRING="http://www.w3.org/1999/02/22-rdf-syntax-ns#langString"
def validate(doc, triples, pairs):
    """doc: shexc Doc; triples: abstract; pairs: iterable of (node_id, shape_label). returns dict pair -> list of reasons (empty = conforms)"""
    shapes={s.label:s for s in doc.shapes}
    out=defaultdict(list); inc=defaultdict(list); kind={}
    for s,p,o in triples:
        out[s[1]].append((p,o)); kind[s[1]]=s[0]
        if o[0]!='lit': inc[o[1]].append((p,s)); kind[o[1]]=o[0]
    # candidate set: all (node, shape) pairs reachable
    cand=set(pairs); work=list(pairs)
    def refs_of(node, sh):
        r=[]
        S=shapes.get(sh)
        if S is None: return r
        for c in S.constraints:
            for v in c.values:
                if v[0]=='ref':
                    neigh = inc[node] if c.inverse else out[node]
                    for p,x in neigh:
                        if p==c.pred and x[0]!='lit': r.append((x[1],v[1]))
        return r
    while work:
        n,sh=work.pop()
        for pr in refs_of(n,sh):
            if pr not in cand: cand.add(pr); work.append(pr)
    ok=set(cand); reasons={}
    def atom_match(v, x, okset):
        if v[0]=='kind':
            if v[1]=='.': return True
            if x[0]=='lit': return v[1]=='LITERAL'
            return v[1]=='NONLITERAL' or (v[1]=='IRI' and x[0]=='iri') or (v[1]=='BNode' and x[0]=='bnode')
        if v[0]=='datatype': return x[0]=='lit' and x[2]==v[1]
        if v[0]=='valueset': return x[0]!='lit' and x[1] in v[1]
        if v[0]=='ref': return x[0]!='lit' and (x[1],v[1]) in okset
    def check(n, sh, okset):
        S=shapes.get(sh)
        if S is None: return ["undefined shape "+sh]
        why=[]
        if getattr(S,'stem',None) is not None and not (not str(n).startswith('_:') and str(n).startswith(S.stem)):
            why.append("focus node is not an IRI starting with the stem <%s> of the shape's node constraint"%S.stem)
        fam=defaultdict(list)
        for c in S.constraints: fam[(c.inverse,c.pred)].append(c)
        for (inv,p),cs in fam.items():
            vals=[x for q,x in (inc[n] if inv else out[n]) if q==p]
            counts=[0]*len(cs)
            for x in vals:
                m=[i for i,c in enumerate(cs) if any(atom_match(v,x,okset) for v in c.values)]
                if len(m)==0: why.append("value %r of %s%s matches no constraint"%(x,'^' if inv else '',p)); continue
                counts[m[0]]+=1   # emitted constraints of one family are disjoint; first match
            for i,c in enumerate(cs):
                lo,hi=c.card
                if counts[i]<lo or (hi is not None and counts[i]>hi): why.append("%s%s: %d values, cardinality %s"%('^' if inv else '',p,counts[i],c.card_txt or '{1}'))
        return why
    changed=True
    while changed:
        changed=False
        for pr in sorted(ok):
            w=check(pr[0],pr[1],ok)
            if w: ok.discard(pr); reasons[pr]=w; changed=True
    return {pr:reasons.get(pr,[]) for pr in pairs}
