"""./check <id> [quick|thorough] [--replay FILE]"""
import os
import sys


def main(argv):
    if not argv:
        print(__doc__)
        return 2
    pid = argv[0].upper()
    tier = os.environ.get("VERIF_TIER", "quick")
    replay = None
    i = 1
    while i < len(argv):
        a = argv[i]
        if a in ("quick", "thorough"):
            tier = a
        elif a == "--replay":
            i += 1
            replay = argv[i]
        i += 1
    seed = int(os.environ.get("VERIF_SEED", "1") or 1)
    try:
        from vf import runner
        return runner.run(pid, tier, seed, replay)
    except SystemExit:
        raise
    except BaseException:
        import traceback
        print("HARNESS-ERROR:\n" + traceback.format_exc())
        return 2


if __name__ == "__main__":
    sys.exit(main(sys.argv[1:]))
