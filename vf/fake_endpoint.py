"""In-process SPARQL endpoint substituted for the HTTP client (no repository hook needed):
    shexer.io.sparql.query.SPARQLWrapper = FakeWrapper
rdflib evaluates the query text sheXer sends against the registered graph and the answer is returned in the SPARQL JSON
results format (what SPARQLWrapper's .query().convert() yields).  Every query is logged."""
import contextlib
import json
from . import sut
from .rdfmodel import to_rdflib

import shexer.io.sparql.query as _q

GRAPHS = {}       # endpoint url -> rdflib graph
LOG = []          # (url, query text)


class _Result(object):
    def __init__(self, data):
        self._data = data

    def convert(self):
        return self._data


class FakeWrapper(object):
    def __init__(self, endpoint_url):
        self.url = endpoint_url
        self.agent = None
        self._query = None

    def setQuery(self, q):
        self._query = q

    def setReturnFormat(self, fmt):
        pass

    def query(self):
        import rdflib
        g = GRAPHS[self.url]
        LOG.append((self.url, self._query))
        res = g.query(self._query)
        vars_ = [str(v) for v in res.vars]
        bindings = []
        for row in res:
            b = {}
            for v, val in zip(vars_, row):
                if val is None:
                    continue
                if isinstance(val, rdflib.URIRef):
                    b[v] = {"type": "uri", "value": str(val)}
                elif isinstance(val, rdflib.BNode):
                    b[v] = {"type": "bnode", "value": str(val)}
                else:
                    d = {"type": "literal", "value": str(val)}
                    if val.language:
                        d["xml:lang"] = str(val.language)
                    elif val.datatype is not None:
                        d["datatype"] = str(val.datatype)
                    b[v] = d
            bindings.append(b)
        # a real endpoint answers deterministically; rdflib's store iterates in hash order, so the rows are sorted here
        bindings.sort(key=lambda b: json.dumps(b, sort_keys=True))
        return _Result({"head": {"vars": vars_}, "results": {"bindings": bindings}})


@contextlib.contextmanager
def serving(url, triples):
    """serve the abstract triples at url for the duration of the block"""
    old = _q.SPARQLWrapper
    _q.SPARQLWrapper = FakeWrapper
    GRAPHS[url] = to_rdflib(triples)
    start = len(LOG)
    try:
        yield lambda: [q for u, q in LOG[start:] if u == url]
    finally:
        _q.SPARQLWrapper = old
        GRAPHS.pop(url, None)
        del LOG[:]
