"""Child process of C19: runs a batch of cases under the PYTHONHASHSEED given by the parent and prints one JSON line per case:
{"i": index, "shex": text or null, "shacl": canonical hash or null, "err": bucket or null}"""
import sys
import json
import hashlib


def main(path):
    from vf import sut, fake_endpoint
    from vf.props import c19
    batch = json.load(open(path))
    out = []
    for i, case in enumerate(batch):
        rec = {"i": i, "shex": None, "shacl": None, "err": None}
        try:
            rec.update(c19.run_case_here(case))
        except BaseException as e:  # noqa
            rec["err"] = "child:" + type(e).__name__ + ":" + str(e)[:200]
        out.append(rec)
    sys.stdout.write("\n".join(json.dumps(r) for r in out) + "\n")


if __name__ == "__main__":
    main(sys.argv[1])
