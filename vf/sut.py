"""Adapter around the code under test.  `shexer` is imported from $VERIF_REPO (default /repo),
which is put first on sys.path, so checks always exercise the current working tree."""
import os
import sys
import signal
import traceback
import warnings
import tempfile
import shutil
import contextlib

REPO = os.environ.get("VERIF_REPO", "/repo")
if REPO not in sys.path[:1]:
    sys.path.insert(0, REPO)
warnings.filterwarnings("ignore", category=SyntaxWarning)
warnings.filterwarnings("ignore", category=DeprecationWarning)

import shexer  # noqa: E402
from shexer.shaper import Shaper  # noqa: E402
from shexer import consts  # noqa: E402

assert os.path.realpath(shexer.__file__).startswith(os.path.realpath(REPO) + os.sep), \
    "shexer imported from %s, not from %s" % (shexer.__file__, REPO)

import logging  # noqa: E402
logging.getLogger("rdflib").setLevel(logging.CRITICAL)
logging.getLogger("rdflib.term").setLevel(logging.CRITICAL)


class Timeout(BaseException):
    """Raised by the alarm; BaseException so that `except Exception` in the code under test cannot swallow it."""


class Crash(object):
    """An exception that escaped from the code under test."""

    def __init__(self, exc):
        self.type = type(exc).__name__
        self.msg = str(exc)[:300]
        frame = None
        depth_frames = []
        for fs in traceback.extract_tb(exc.__traceback__):
            fn = os.path.realpath(fs.filename)
            if (os.sep + "shexer" + os.sep) in fn and fn.startswith(os.path.realpath(REPO)):
                frame = fs
                depth_frames.append(fs.name)
        self.func = frame.name if frame else "?"
        self.file = os.path.basename(frame.filename) if frame else "?"
        self.line = frame.lineno if frame else 0
        self.stack = depth_frames[-6:]
        self.tb = "".join(traceback.format_exception(type(exc), exc, exc.__traceback__))[-3000:]

    @property
    def bucket(self):
        return "%s@%s:%s" % (self.type, self.file, self.func)

    def __repr__(self):
        return "Crash(%s: %s)" % (self.bucket, self.msg[:120])


class Hang(object):
    bucket = "HANG"
    type = "Timeout"
    func = "?"
    file = "?"
    msg = "no result within the time limit"
    tb = ""

    def __init__(self, where=""):
        self.where = where

    def __repr__(self):
        return "Hang(%s)" % self.where


def _on_alarm(signum, frame):
    raise Timeout()


@contextlib.contextmanager
def time_limit(seconds):
    old = signal.signal(signal.SIGALRM, _on_alarm)
    signal.setitimer(signal.ITIMER_REAL, seconds)
    try:
        yield
    finally:
        signal.setitimer(signal.ITIMER_REAL, 0)
        signal.signal(signal.SIGALRM, old)


def guarded(fn, timeout=30.0):
    """Run fn(); returns (result, None) or (None, Crash|Hang)."""
    try:
        with time_limit(timeout):
            return fn(), None
    except Timeout:
        tb = traceback.extract_stack()
        return None, Hang()
    except RecursionError as e:
        return None, Crash(e)
    except Exception as e:  # noqa
        return None, Crash(e)


def confirm_loop(fn, max_events=3000000, wall=120.0):
    """Deterministic confirmation of non-termination: count line events; True if more than max_events
    line events happen inside shexer code before fn returns."""
    count = [0]

    class _Stop(BaseException):
        pass

    def tracer(frame, event, arg):
        if event == "line":
            count[0] += 1
            if count[0] > max_events:
                raise _Stop()
        return tracer
    old = sys.gettrace()
    try:
        with time_limit(wall):
            sys.settrace(tracer)
            try:
                fn()
            finally:
                sys.settrace(old)
        return False
    except _Stop:
        sys.settrace(old)
        return True
    except Timeout:
        sys.settrace(old)
        return True
    except Exception:
        sys.settrace(old)
        return False


def shex(kwargs, timeout=30.0, history=None, **call):
    """Fresh Shaper(**kwargs).shex_graph(string_output=True, **call).
    history: earlier calls [[threshold, output format, 'string'|'file'], ...] made on the same Shaper first - the answer to
    the judged call must not depend on them (a property about the shapes holds for every call, not only for the first)."""
    call.setdefault("string_output", True)

    def go():
        sh = Shaper(**kwargs)
        if history:
            with tmpdir() as d:
                for i, (thr, fmt, sink) in enumerate(history):
                    if sink == "file":
                        sh.shex_graph(output_file=os.path.join(d, "h%d.out" % i), acceptance_threshold=thr, output_format=fmt)
                    else:
                        sh.shex_graph(string_output=True, acceptance_threshold=thr, output_format=fmt)
        return sh.shex_graph(**call)
    return guarded(go, timeout)


@contextlib.contextmanager
def tmpdir():
    d = tempfile.mkdtemp(prefix="vf_")
    try:
        yield d
    finally:
        shutil.rmtree(d, ignore_errors=True)


def reset_globals():
    """sheXer keeps no module-level mutable state that matters between runs, except rdflib's
    bnode counters (irrelevant).  Kept as a hook for fuzz targets."""
    return None
