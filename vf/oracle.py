"""Canonical view of a parsed ShExC document and its comparison with the reference profiler."""
import re
from . import shexc


def card_norm(txt):
    if txt in ("", "{1}"):
        return "1"
    if txt == "+":
        return "+"
    m = re.fullmatch(r"\{(\d+)\}", txt)
    return m.group(1) if m else txt


def atom_kind(v, dp, inst_prop):
    if v[0] == "kind":
        return ("kind", v[1])
    if v[0] == "ref":
        return ("ref", v[1])
    if v[0] == "datatype":
        return ("dt", v[1])
    if v[0] == "valueset":
        return ("class", v[1][0])
    return ("?", v)


def obj_kind(o, dp, inst_prop):
    if o[0] == "kind":
        return ("kind", o[1])
    if o[0] == "ref":
        return ("ref", o[1])
    if o[0] == "iri":
        return ("class", o[1]) if dp[1] == inst_prop else ("dt", o[1])
    if o[0] == "bnode":
        return ("class", o[1])
    return ("?", o)


def key_of(kind):
    return kind if kind[0] in ("dt", "class") else ("nonliteral",)


class CShape(object):
    __slots__ = ("label", "n", "stem", "cons", "dups", "facts", "order")

    def __init__(self, label):
        self.label = label
        self.n = None
        self.stem = None
        self.cons = {}      # (dp, key) -> dict(values, card, figure, facts)
        self.dups = []
        self.facts = set()  # (dp, kind, card, n)
        self.order = []


def canon(doc, inst_prop):
    """doc (shexc.Doc) -> {label: CShape}; duplicate labels are reported under key '__dup_labels__'."""
    res = {}
    dup_labels = []
    for sh in doc.shapes:
        cs = CShape(sh.label)
        cs.n = sh.n_instances
        cs.stem = sh.stem
        for c in sh.constraints:
            dp = ("i" if c.inverse else "d", c.pred)
            kinds = tuple(atom_kind(v, dp, inst_prop) for v in c.values)
            key = (dp, key_of(kinds[0]))
            entry = dict(kinds=kinds, card=c.card_txt or "{1}", figure=c.figure, facts=[], annotations=list(c.annotations))
            if c.figure is not None and c.card_txt not in ("*", "?") and len(kinds) == 1:
                cs.facts.add((dp, kinds[0], card_norm(c.card_txt), c.figure.get("n"), c.figure.get("ratio")))
            for f in c.facts:
                if f["obj"] == ("choice",):
                    entry["facts"].append((("choice",), f["card"], f["n"], f["ratio"]))
                    continue
                k = obj_kind(f["obj"], dp, inst_prop)
                entry["facts"].append((k, card_norm(f["card"]), f["n"], f["ratio"]))
                cs.facts.add((dp, k, card_norm(f["card"]), f["n"], f["ratio"]))
            if key in cs.cons:
                cs.dups.append(key)
            else:
                cs.cons[key] = entry
                cs.order.append(key)
        if sh.label in res:
            dup_labels.append(sh.label)
        else:
            res[sh.label] = cs
    if dup_labels:
        res["__dup_labels__"] = dup_labels
    return res


def read_canon(text, inst_prop, lenient=False):
    return canon(shexc.read(text, lenient_examples=lenient), inst_prop)


def ratio_ok(ratio_txt, n, N, decimals=-1):
    """printed percentage vs exact fraction n/N; both rounding directions accepted at the printed precision"""
    r = float(ratio_txt) / 100.0
    exact = n / N
    if decimals is None or decimals < 0:
        return abs(r - exact) <= 1e-9
    return abs(r - exact) <= (0.5 * 10 ** (-decimals)) / 100.0 + 1e-9


class Finding(object):
    __slots__ = ("cat", "detail", "sig")

    def __init__(self, cat, detail, sig=None):
        self.cat = cat
        self.detail = detail
        self.sig = sig

    def __repr__(self):
        return "%s%s: %s" % (self.cat, ("[" + self.sig + "]") if self.sig else "", self.detail)


def compare(cdoc, M, label_of, thr, cfg, twin=None, decimals=-1, expect_empty_shapes=False):
    """Compare a canonical document with the reference model.
    Returns a list of Finding; cat in {NINST, COUNT, RATIO, OVER100, SHAPE_UNEXPECTED, SHAPE_MISSING,
    KEY_MISSING, KEY_EXTRA, KEY_DUP, LABEL_DUP}; sig is the known-finding signature that matches, if any."""
    out = []
    inst_prop = M.inst_prop
    kls = cfg.get("keep_less_specific", True)
    dec = cfg.get("disable_exact_cardinality", False)
    by_label = {}
    for S, lab in label_of.items():
        by_label.setdefault(lab, []).append(S)
    if "__dup_labels__" in cdoc:
        out.append(Finding("LABEL_DUP", str(cdoc["__dup_labels__"])))
    seen = set()
    for lab, cs in cdoc.items():
        if lab == "__dup_labels__":
            continue
        if lab not in by_label:
            out.append(Finding("SHAPE_UNEXPECTED", lab))
            continue
        S = by_label[lab][0]
        seen.add(S)
        N = M.N[S]
        if cs.n is not None and cs.n != N:
            out.append(Finding("NINST", "%s: printed %s, selected %s" % (lab, cs.n, N)))
        for k in cs.dups:
            out.append(Finding("KEY_DUP", "%s %s" % (lab, k)))

        def chk(fig_n, fig_ratio, dp, kind, card, where, key):
            if fig_n is None and fig_ratio is None:
                return
            cands = None
            if kind[0] == "?":
                return
            if where == "line" and dec and card == "+":
                # '+' produced by disable_exact_cardinality keeps the figure of the original {k>1}
                tw = twin.get(lab) if twin else None
                te = tw.cons.get(key) if tw else None
                if te is not None and te["kinds"] == (kind,) and card_norm(te["card"]) not in ("*", "?"):
                    cands = [M.count(S, dp, kind, card_norm(te["card"]))]
                else:
                    cands = [M.plus[S][dp].get(kind, 0)] + [v for k2, v in M.hist[S][dp].get(kind, {}).items() if k2 > 1]
            else:
                try:
                    cands = [M.count(S, dp, kind, card)]
                except ValueError:
                    return
            sig = None
            if kind == ("kind", "NONLITERAL"):
                if M.both[S][dp]:
                    sig = "C01-NONLIT"
                elif not kls:
                    sig = "C01-NONLIT-KLS"
            if sig is not None and fig_n is not None and fig_n not in cands:
                # the deviation these two findings describe: the merged line carries IRI-count + BNode-count
                def alts(k):
                    return {M.plus[S][dp].get(k, 0)} | set(M.hist[S][dp].get(k, {}).values())
                if fig_n not in {a + b for a in alts(("kind", "IRI")) for b in alts(("kind", "BNode"))}:
                    sig = None
            if fig_n is not None:
                if fig_n not in cands:
                    out.append(Finding("COUNT", "%s %s %s card %s (%s): printed %s, expected %s" % (lab, dp, kind, card, where, fig_n, cands), sig))
                    return
                exp = fig_n
            else:
                exp = None
            if fig_ratio is not None and N:
                if float(fig_ratio) > 100 + 1e-9:
                    out.append(Finding("OVER100", "%s %s %s: %s %%" % (lab, dp, kind, fig_ratio), sig))
                oks = [e for e in ([exp] if exp is not None else cands) if ratio_ok(fig_ratio, e, N, decimals)]
                if not oks:
                    dsig = sig
                    if decimals == 0 and any(abs(float(fig_ratio) / 100.0 - e / N) < 0.01 + 1e-9 for e in ([exp] if exp is not None else cands)):
                        dsig = "C13-DEC0"
                    out.append(Finding("RATIO", "%s %s %s card %s (%s): printed %s %%, expected %s / %s" % (lab, dp, kind, card, where, fig_ratio, [exp] if exp is not None else cands, N), dsig))

        keys = set()
        for key, e in cs.cons.items():
            dp = key[0]
            keys.add(key)
            if len(e["kinds"]) == 1 and e["figure"] is not None and e["card"] not in ("*", "?"):
                chk(e["figure"].get("n"), e["figure"].get("ratio"), dp, e["kinds"][0], card_norm(e["card"]), "line", key)
            for (k, card, n, ratio) in e["facts"]:
                if k == ("choice",):
                    continue
                chk(n, ratio, dp, k, card, "fact", key)
        exp = M.expected_keys(S, thr)
        for k in exp - keys:
            sig = None
            if k[1] == ("nonliteral",):
                if M.mixed_kind_signature(S, k[0], thr):
                    sig = "C02-MIXEDKIND"
                else:
                    sig = _goneref_sig(M, S, k[0], thr, cdoc, label_of, cfg.get("keep_less_specific", True), cfg.get("disable_or_statements", True) is False)
            out.append(Finding("KEY_MISSING", "%s %s" % (lab, k), sig))
        for k in keys - exp:
            out.append(Finding("KEY_EXTRA", "%s %s" % (lab, k)))
    for S in M.sel:
        if S in seen:
            continue
        exp = M.expected_keys(S, thr)
        if M.N[S] > 0 and exp:
            # every expected key may itself be excused (then the shape is legitimately empty -> removed)
            sigs = []
            for k in exp:
                if k[1] == ("nonliteral",) and M.mixed_kind_signature(S, k[0], thr):
                    sigs.append("C02-MIXEDKIND")
                elif k[1] == ("nonliteral",) and _goneref_sig(M, S, k[0], thr, cdoc, label_of, cfg.get("keep_less_specific", True), cfg.get("disable_or_statements", True) is False):
                    sigs.append("C02-GONEREF")
                else:
                    sigs.append(None)
            sig = sigs[0] if all(sigs) else None
            out.append(Finding("SHAPE_MISSING", "%s (%d instances, expected keys %s)" % (label_of[S], M.N[S], sorted(map(str, exp))), sig))
        elif expect_empty_shapes:
            out.append(Finding("SHAPE_MISSING", "%s (empty shape expected with remove_empty_shapes=False)" % label_of[S]))
    return out


def _goneref_sig(M, S, dp, thr, cdoc, label_of, kls=True, or_mode=False):
    """C02-GONEREF: the WINNING alternative is a reference to a shape that is not in the document.  A reference wins over the node
    kind it specialises only when it is as frequent as that kind (every instance with such a value has one of that shape) - with
    keep_less_specific=False the most frequent exact cardinalities are compared instead.  A reference that merely reaches the
    threshold, but is less frequent than the plain node kind, does not win, and a constraint missing then is not this finding."""
    N = M.N[S]
    if not N:
        return None
    plus, hist = M.plus[S][dp], M.hist[S][dp]
    for k, n in plus.items():
        if k[0] != "ref" or n / N < thr or k[1] in cdoc:
            continue
        if or_mode:
            # with disjunctions enabled every alternative at or above the threshold is a member of the OR statement, and the whole
            # statement is dropped when one member points to a removed shape - the reference need not win against the node kind
            return "C02-GONEREF"
        for kind in (("kind", "IRI"), ("kind", "BNode")):
            if kind not in plus:
                continue
            if kls and n >= plus[kind]:
                return "C02-GONEREF"
            if not kls:
                # the statement that stands for an alternative is its most frequent exact cardinality among those that reach the
                # threshold, or the '+' statement when none does
                def chosen(kk):
                    ex = [c for c in hist[kk].values() if c / N >= thr]
                    return max(ex) if ex else (plus[kk] if plus[kk] / N >= thr else 0)
                if chosen(k) and chosen(k) >= chosen(kind):
                    return "C02-GONEREF"
    return None


def fact_map(cs, dec):
    """{(dp, kind, card): (n, ratio)} of one canonical shape; entries that are ambiguous within the document are dropped
    (with disable_exact_cardinality a '+' on a constraint line may carry the figure of the original {k})."""
    d = {}
    amb = set()
    for (dp, kind, card, n, ratio) in cs.facts:
        k = (dp, kind, card)
        if k in d and d[k] != (n, ratio):
            amb.add(k)
        d[k] = (n, ratio)
    if dec:
        # a '+' line produced by disable_exact_cardinality carries the figure of the original {k}: ambiguous, skip
        for k in list(d):
            if k[2] == "+":
                amb.add(k)
    for k in amb:
        d.pop(k, None)
    return d




def is_bnode_valueset_finding(text, err, cfg, triples, inst_prop):
    """signature of C05-BNODEVALUESET: with inverse_paths, a class that is itself an instance and has a blank-node instance gets
    '^rdf:type [_:b]', for which sheXer prints '[@<id>]' - not ShExC (a blank node has no value-set rendering)"""
    if "bad value set member ('punct', '@')" not in str(err) or "[@<" not in text or not cfg.get("inverse_paths"):
        return False
    instances = {s[1] for s, p, o in triples if p == inst_prop}
    return any(p == inst_prop and s[0] == "bnode" and o[1] in instances for s, p, o in triples)


class OneSided(Exception):
    """some of the outputs that should be compared parse, others do not: that is a difference, not a discard"""


def read_all(texts, inst_prop):
    docs, errs = [], []
    for t in texts:
        try:
            docs.append(read_canon(t, inst_prop))
            errs.append(None)
        except shexc.ShExCError as e:
            docs.append(None)
            errs.append(str(e))
    if all(errs):
        raise shexc.ShExCError(errs[0])
    if any(errs):
        i = [k for k, e in enumerate(errs) if e][0]
        raise OneSided("output %d of %d does not parse as ShExC (%s) while the others do:\n%s" % (i + 1, len(texts), errs[i], texts[i][:1500]))
    return docs
