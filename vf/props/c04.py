"""C04 - extraction never crashes on a valid graph and a valid configuration.

For every syntactically valid RDF input in a supported format and every configuration the constructor accepts, shex_graph
(both output formats) and profile_graph return a result; they never raise.
Oracle: no exception, no confirmed non-termination, result is a str.  Exceptions are bucketed by (type, innermost shexer
frame); known buckets are excluded by signature so the search continues behind them.
"""
import os
from hypothesis import strategies as st
from .. import sut, common, refmodel, gen_graph as gg
from ..runner import ok, violation, known, discard
from ..rdfmodel import RDF_TYPE, RDF, to_nt, to_tsv, to_simple_turtle, to_rdflib, triples_from_json

PID = "C04"
RULE = ("Hypothesis: general graphs + adversarial mixes (IRI+bnode values with/without classes, blank-node classes, classes typed by "
        "classes, nodes without outgoing triples, one-instance classes, target classes without instances, language tags) x every "
        "accepted configuration (target mode incl. shape maps in both syntaxes, instantiation property, 6 switches, or-flags, remove_empty_shapes, disable_comments, "
        "decimals, report modes, namespaces_dict, shapes_namespace, instances_cap, namespaces_to_ignore, detect_minimal_iri, "
        "examples_mode, thresholds incl. k/n) x {ShExC, SHACL} x {shex_graph, profile_graph} x input {NT, TSV, TURTLE, TURTLE_ITER, "
        "rdflib Graph}.  Oracle: no exception / confirmed hang; result is text.  Non-trivial: the case has >=1 adversarial feature "
        "(labelled); distinct by SHA-1 of the case.")
ASSUMPTIONS = ["generated documents are valid by construction (writers in vf/rdfmodel.py)", "a 30 s alarm + line-event bound decides non-termination"]
BUDGET = {"quick": {"examples": 16000, "wall": 200}, "thorough": {"examples": 200000, "wall": 900}}
# coverage-guided supplement (vf/fuzz.py): libFuzzer runs per shard, 16 shards
FUZZ = {"quick": {"runs": 1000, "wall": 120}, "thorough": {"runs": 10000, "wall": 600}}
FLOORS = {"nontrivial": 0.4, "fmt:Shacl": 0.15, "call:profile_graph": 0.05, "in:turtle_iter": 0.05}
SURVEY = bool(os.environ.get("VF_C04_SURVEY"))

# bucket -> (finding id, predicate(case) or None)
def _shacl_bnode_class(case, triples):
    ip = case["g"]["inst_prop"]
    if case["format"] != "Shacl":
        return False
    if any(p == ip and o[0] == "bnode" for s, p, o in triples):
        return True
    # with inverse paths, '^instantiation-property [subject]' value sets may hold a blank-node subject
    return bool(case["cfg"].get("inverse_paths")) and any(p == ip and s[0] == "bnode" for s, p, o in triples)


def _shacl_or(case, triples):
    return case["format"] == "Shacl" and case["cfg"].get("disable_or_statements") is False


KNOWN_BUCKETS = {
    "ValueError@shacl_serializer.py:_generate_r_uri_for_str_uri": ("C04-SHACL-BNODECLASS", _shacl_bnode_class),
    "TypeError@fixed_prop_choice_statement.py:st_type": ("C04-SHACL-OR", _shacl_or),
}

NS_DICTS = [
    {"http://ex.org/": "ex", "http://www.w3.org/2001/XMLSchema#": "xsd", RDF: "rdf"},
    {"http://ex.org/": "", "http://ex.org/ns/": "weso-s", "http://other.org/v#": "shapes", "https://data.example/": "w-shapes"},
    {"http://ex.org/ns/": "ns", "http://other.org/v#": "v"},
]


@st.composite
def cases(draw):
    g = draw(gg.general(inst_props=(RDF_TYPE, RDF_TYPE, RDF_TYPE, "http://ex.org/isA", gg.INST_PROPS[2]),
                        bnode_classes=True, class_typing=True, quirks=draw(gg.quirk_set(allowed=tuple(gg.QUIRKS) + ("odd_class_names", "slash_classes")))))
    cfg = draw(gg.switches())
    opt = st.integers(0, 3)
    if draw(opt) == 0:
        cfg["disable_or_statements"] = False
        if draw(st.booleans()):
            cfg["allow_redundant_or"] = True
    if draw(opt) == 0:
        cfg["remove_empty_shapes"] = False
    if draw(opt) == 0:
        cfg["disable_comments"] = True
    if draw(opt) == 0:
        cfg["decimals"] = draw(st.sampled_from([0, 1, 2, 5]))
    cfg["instances_report_mode"] = draw(st.sampled_from(["ratio", "abs", "mixed"]))
    if draw(opt) == 0:
        cfg["namespaces_dict"] = draw(st.sampled_from(NS_DICTS))
    if draw(opt) == 0:
        cfg["shapes_namespace"] = "http://my.shapes/ns/"
    if draw(opt) == 0:
        cfg["instances_cap"] = draw(st.integers(1, 4))
    if draw(opt) == 0:
        cfg["namespaces_to_ignore"] = draw(st.lists(st.sampled_from(["http://ex.org/", "http://ex.org/ns/", RDF]), min_size=1, max_size=2, unique=True))
    if draw(opt) == 0:
        cfg["detect_minimal_iri"] = True
    if draw(opt) == 0:
        cfg["examples_mode"] = draw(st.sampled_from(["shape", "cons", "all"]))
    if draw(st.integers(0, 7)) == 0:
        cfg["infer_numeric_types_for_untyped_literals"] = False
    target = draw(common.target_spec(g))
    if target["mode"] == "classes" and draw(st.integers(0, 3)) == 0:
        target["classes"] = target["classes"] + ["http://ex.org/C9"]
    if draw(st.integers(0, 4)) == 0:
        from . import c10
        n = draw(st.integers(1, 3))
        target = {"mode": "sm", "with_all": draw(st.integers(0, 3)) == 0, "json": draw(st.booleans()),
                  "items": [{"sel": draw(c10.selector(g)), "label": draw(st.sampled_from(["<http://sh.org/S%d>" % i, "ex:S%d" % i, "<S%d>" % i])),
                             "styles": draw(st.lists(st.integers(0, 1), min_size=4, max_size=4))} for i in range(n)]}
    if target["mode"] == "sm" and not target["json"] and "@" in repr([it["sel"] for it in target["items"]]):
        target["json"] = True       # the fixed syntax allows one '@' per line (documented); mailto: IRIs go through the JSON syntax
    thr = draw(gg.thresholds())
    fmt = draw(st.sampled_from(["ShEx", "ShEx", "Shacl"]))
    call = draw(st.sampled_from(["shex_graph"] * 5 + ["profile_graph"]))
    inp = draw(st.sampled_from(["nt", "nt", "nt", "tsv_spo", "turtle", "turtle_iter", "rdflib"]))
    sink = draw(st.sampled_from(["string", "string", "file"]))
    return {"g": g, "cfg": cfg, "target": target, "thr": thr, "format": fmt, "call": call, "input": inp, "sink": sink,
            "layout": draw(st.integers(0, 7))}


def strategy(tier):
    return cases()


def build_kwargs(case, tmp):
    sm = None
    if case["target"]["mode"] == "sm":
        sm = case["target"]
        case = dict(case, target={"mode": "all"})
    kw, triples = common.base_kwargs(case)
    if sm is not None:
        import json as _json
        from .. import selectors
        from . import c10
        if not sm["with_all"]:
            kw.pop("all_classes_mode", None)
        texts = [(selectors.render(it["sel"], c10.NSD, it["styles"], multiline_ok=bool(sm["json"])), it["label"]) for it in sm["items"]]
        if sm["json"]:
            kw["shape_map_raw"] = _json.dumps([{"nodeSelector": a, "shapeLabel": b} for a, b in texts])
            kw["shape_map_format"] = "json"
        else:
            kw["shape_map_raw"] = "\n".join("%s@%s" % t for t in texts)
        kw["namespaces_dict"] = dict(c10.NSD)
    if "namespaces_dict" in case["cfg"] and sm is None:
        kw["namespaces_dict"] = dict(case["cfg"]["namespaces_dict"])
    inp = case.get("input", "nt")
    if sm is not None and inp in ("tsv_spo", "turtle_iter"):
        inp = "nt"      # shape maps need an rdflib-readable format (C20-SM-FORMAT is C20's known finding)
    if inp == "tsv_spo":
        kw["raw_graph"] = to_tsv(triples)
        kw["input_format"] = "tsv_spo"
    elif inp in ("turtle", "turtle_iter"):
        # legal layouts: statement on one line / dot on its own line / object on the next line / one token per line; integers
        # also in Turtle's number shorthand
        lay = case.get("layout", 0)
        kw["raw_graph"] = to_simple_turtle(triples, {"ex": "http://ex.org/", "xsd": "http://www.w3.org/2001/XMLSchema#"},
                                           bare_integers=lay >= 4, layout=lay % 4)
        kw["input_format"] = inp
    elif inp == "rdflib":
        kw.pop("raw_graph")
        kw["rdflib_graph"] = to_rdflib(triples)
    return kw, triples


def adversarial_features(case, triples):
    labs = set()
    by_sp = {}
    subjects = set()
    for s, p, o in triples:
        subjects.add(s[1])
        if o[0] != "lit":
            by_sp.setdefault((s[1], p), set()).add(o[0])
        if o[0] == "lit" and o[3]:
            labs.add("lang-literal")
        if p == case["g"]["inst_prop"] and o[0] == "bnode":
            labs.add("bnode-class")
    if any(len(v) == 2 for v in by_sp.values()):
        labs.add("iri+bnode-values")
    sel = refmodel.select_by_classes(triples, case["g"]["inst_prop"])
    if any(len(v) == 1 for v in sel.values()):
        labs.add("one-instance-class")
    if any(n not in subjects - set() and False for v in sel.values() for n in v):
        pass
    typed = {n for v in sel.values() for n in v}
    outgoing = {s[1] for s, p, o in triples if p != case["g"]["inst_prop"]}
    if typed - outgoing:
        labs.add("node-without-outgoing")
    if set(sel) & typed:
        labs.add("class-is-instance")
    if case["target"]["mode"] == "classes" and any(c not in sel for c in case["target"]["classes"]):
        labs.add("target-without-instances")
    return labs


def check(case):
    with sut.tmpdir() as tmp:
        kw, triples = build_kwargs(case, tmp)
        labels = adversarial_features(case, triples)
        labels |= {"fmt:" + case["format"], "call:" + case["call"], "in:" + case.get("input", "nt"), "target:" + case["target"]["mode"]}
        for k in ("disable_or_statements", "remove_empty_shapes", "instances_cap", "namespaces_to_ignore", "detect_minimal_iri",
                  "examples_mode", "inverse_paths"):
            if case["cfg"].get(k) not in (None, False) or (k in ("disable_or_statements", "remove_empty_shapes") and case["cfg"].get(k) is False):
                labels.add("cfg:" + k)
        nt = bool(labels & {"iri+bnode-values", "one-instance-class", "node-without-outgoing", "class-is-instance",
                            "target-without-instances", "lang-literal", "bnode-class"})
        if nt:
            labels.add("nontrivial")
        out_path = os.path.join(tmp, "out.txt")

        def go():
            sh = sut.Shaper(**kw)
            skw = dict(string_output=True) if case.get("sink", "string") == "string" else dict(output_file=out_path)
            if case["call"] == "profile_graph":
                return sh.profile_graph(**skw)
            return sh.shex_graph(acceptance_threshold=case["thr"], output_format=case["format"], **skw)
        res, crash = sut.guarded(go, 30.0)
        if crash is None:
            if case.get("sink", "string") == "string":
                if not isinstance(res, str):
                    return violation("result is %r, not text" % type(res), labels, nt)
            elif not os.path.exists(out_path):
                return violation("no output file written", labels, nt)
            return ok(labels, nt)
    if isinstance(crash, sut.Hang):
        return violation("no result within 30 s (suspected non-termination)", labels, nt)
    if SURVEY:
        return known(crash.bucket, crash.msg + "\n" + crash.tb[-800:], labels, nt)
    kf = KNOWN_BUCKETS.get(crash.bucket)
    if kf is not None and (kf[1] is None or kf[1](case, triples)):
        return known(kf[0], crash.bucket + ": " + crash.msg, labels, nt)
    return violation("%s: %s\n%s" % (crash.bucket, crash.msg, crash.tb[-1500:]), labels, nt)
