"""C11 - ShExC and SHACL outputs state the same constraints.

For the same extraction the SHACL document contains one node shape per ShExC shape (same IRI, sh:targetClass = the class) and
one property shape per triple constraint with the same predicate and direction, the same value restriction (datatype; node
kind IRI / blank node / IRI-or-blank-node; referenced shape; single allowed class value) and min/max counts equal to the
ShExC cardinality ({k}->k..k, '+'->1.., '*'->none, '?'->..1, absent->1..1).
Oracle: both serialisations of ONE Shaper parsed into (shape, targetClass, direction, predicate, restriction, min, max) sets.
"""
import os
from hypothesis import strategies as st
from .. import sut, oracle, common, refmodel, shexc, gen_graph as gg
from ..runner import ok, violation, known, discard
from ..rdfmodel import RDF_TYPE
from . import c01

PID = "C11"
RULE = ("Hypothesis: general graphs x class-based targets x 6 switches x threshold (disable_or_statements at its default); one Shaper, "
        "both serialisations.  Oracle: tuple sets read from the ShExC text (independent reader) and from the SHACL Turtle (rdflib) "
        "must be equal under the mapping table of the property.  Non-trivial: >=1 constraint with cardinality other than 1 and >=1 "
        "non-literal constraint; distinct by SHA-1 of the case.")
ASSUMPTIONS = c01.ASSUMPTIONS + ["rdflib 6.0.2 parses the SHACL Turtle"]
BUDGET = {"quick": {"examples": 9600, "wall": 180}, "thorough": {"examples": 120000, "wall": 900}}
FLOORS = {"nontrivial": 0.3}
SH = "http://www.w3.org/ns/shacl#"


@st.composite
def cases(draw):
    g = draw(gg.general(inst_props=(RDF_TYPE, RDF_TYPE, RDF_TYPE, "http://ex.org/isA"), quirks=draw(gg.quirk_set(one_in=4))))
    cfg = draw(gg.switches())
    cfg.update(draw(gg.harmless_extras()))
    target = draw(common.target_spec(g))
    if draw(st.integers(0, 3)) == 0:
        cfg["remove_empty_shapes"] = False
        if target["mode"] == "classes":
            target["classes"] = target["classes"] + ["http://ex.org/C9"]      # a requested class without instances: empty shape
    thr = draw(st.sampled_from([0, 0, 0, 0.5, 1 / 3, 1]))
    if draw(st.integers(0, 4)) == 0 and not any(t[0][0] == "bnode" or t[2][0] == "bnode" for t in g["triples"]):
        # shape-map shapes (they may consist of incoming constraints only, or of none)
        from . import c10
        target = {"mode": "sm", "with_all": draw(st.booleans()),
                  "items": [{"sel": draw(c10.selector(g)), "label": draw(st.sampled_from(["<http://sh.org/S%d>", "<http://sh.org/S%d>", "sho:S%d", "ex:S%d"])) % i,
                             "styles": draw(st.lists(st.integers(0, 1), min_size=4, max_size=4))} for i in range(draw(st.integers(1, 3)))]}
        cfg["inverse_paths"] = draw(st.sampled_from([True, True, False]))
        cfg.pop("namespaces_dict", None)
    case = {"g": g, "cfg": cfg, "target": target, "thr": thr}
    if draw(st.integers(0, 3)) == 0:
        # the two documents are taken from files; the files may hold the documents of an earlier extraction (another
        # threshold) written by the same or by another Shaper, and the text may be requested as a string in the same call
        case["files"] = {"earlier_thr": draw(st.sampled_from([None, 0, 0.5, 1])), "same_shaper": draw(st.booleans()),
                         "also_string": draw(st.booleans())}
    return case


def strategy(tier):
    return cases()


selftest = c01.selftest

CARD = {"": (1, 1), "{1}": (1, 1), "+": (1, None), "*": (None, None), "?": (None, 1)}


def card_minmax(txt):
    if txt in CARD:
        return CARD[txt]
    k = int(txt.strip("{}"))
    return (k, k)


def shex_tuples(doc):
    out = set()
    shapes = set()
    for sh in doc.shapes:
        shapes.add(sh.label)
        for c in sh.constraints:
            if len(c.values) != 1:
                return None, None
            v = c.values[0]
            if v[0] == "datatype":
                r = ("datatype", v[1])
            elif v[0] == "kind":
                r = ("nodekind", {"IRI": "IRI", "BNode": "BlankNode", "NONLITERAL": "BlankNodeOrIRI", "LITERAL": "Literal"}.get(v[1], v[1]))
            elif v[0] == "ref":
                r = ("node", v[1])
            elif v[0] == "valueset":
                r = ("in", tuple(v[1]))
            else:
                r = ("?", v)
            mn, mx = card_minmax(c.card_txt or "")
            out.add((sh.label, "^" if c.inverse else "", c.pred, r, mn, mx))
    return out, shapes


def shacl_tuples(text):
    import rdflib
    g = rdflib.Graph()
    g.parse(data=text, format="turtle")
    sh = rdflib.Namespace(SH)
    out = set()
    shapes = {}
    problems = []
    for s in g.subjects(rdflib.RDF.type, sh.NodeShape):
        tcs = [str(o) for o in g.objects(s, sh.targetClass)]
        shapes[str(s)] = tcs
        for ps in g.objects(s, sh.property):
            paths = [str(o) for o in g.objects(ps, sh.path)]
            inv = [str(o) for b in g.objects(ps, sh.property) for o in g.objects(b, sh.inversePath)]
            if len(paths) + len(inv) != 1:
                problems.append("property shape of %s with %d paths" % (s, len(paths) + len(inv)))
                continue
            direction, pred = ("", paths[0]) if paths else ("^", inv[0])
            rs = []
            for o in list(g.objects(ps, sh.dataType)) + list(g.objects(ps, sh.datatype)):
                rs.append(("datatype", str(o)))
            for o in g.objects(ps, sh.nodeKind):
                rs.append(("nodekind", str(o)[len(SH):]))
            for o in g.objects(ps, sh.node):
                rs.append(("node", str(o)))
            for o in g.objects(ps, sh["in"]):
                rs.append(("in", tuple(str(x) for x in rdflib.collection.Collection(g, o))))
            mn = [int(o) for o in g.objects(ps, sh.minCount)]
            mx = [int(o) for o in g.objects(ps, sh.maxCount)]
            r = rs[0] if len(rs) == 1 else ("none" if not rs else "several", tuple(rs))
            out.add((str(s), direction, pred, r, mn[0] if mn else None, mx[0] if mx else None))
    return out, shapes, problems


def enumerate_cases(tier):
    """one extraction with 800 (thorough: also 1 500) shapes: the ShExC text crosses the serializer's 5 000-line buffer, the
    SHACL graph does not go through it - both must still state the same constraints"""
    for n in ((800,) if tier == "quick" else (800, 1500)):
        yield {"g": {"big": n}, "cfg": {}, "target": {"mode": "all"}, "thr": 0}


def check(case):
    if "big" in case["g"]:
        from . import c18
        case = dict(case, g=c18.big_graph(case["g"]["big"]))
    sm = case["target"] if case["target"]["mode"] == "sm" else None
    if sm is not None:
        from .. import selectors
        from . import c10
        kw, triples = common.base_kwargs(dict(case, target={"mode": "all"}))
        if not sm["with_all"]:
            kw.pop("all_classes_mode", None)
        kw["shape_map_raw"] = "\n".join("%s@%s" % (selectors.render(it["sel"], c10.NSD, it["styles"]), it["label"]) for it in sm["items"])
        kw["namespaces_dict"] = dict(c10.NSD)
    else:
        kw, triples = common.base_kwargs(case)
    cfg = case["cfg"]
    inst_prop = case["g"]["inst_prop"]
    thr = case["thr"]

    def go():
        sh = sut.Shaper(**kw)
        a = sh.shex_graph(string_output=True, acceptance_threshold=thr)
        b = sh.shex_graph(string_output=True, acceptance_threshold=thr, output_format="Shacl")
        return a, b

    def go_files(d):
        fs = case["files"]
        pa, pb = os.path.join(d, "out.shex"), os.path.join(d, "out.ttl")
        sh = sut.Shaper(**kw)
        if fs["earlier_thr"] is not None:
            first = sh if fs["same_shaper"] else sut.Shaper(**kw)
            first.shex_graph(output_file=pa, string_output=fs["also_string"], acceptance_threshold=fs["earlier_thr"])
            first.shex_graph(output_file=pb, string_output=fs["also_string"], acceptance_threshold=fs["earlier_thr"], output_format="Shacl")
        sh.shex_graph(output_file=pa, string_output=fs["also_string"], acceptance_threshold=thr)
        sh.shex_graph(output_file=pb, string_output=fs["also_string"], acceptance_threshold=thr, output_format="Shacl")
        return open(pa, encoding="utf-8", newline="").read(), open(pb, encoding="utf-8", newline="").read()
    if case.get("files"):
        with sut.tmpdir() as d:
            res, crash = sut.guarded(lambda: go_files(d), 30)
    else:
        res, crash = sut.guarded(go, 30)
    if crash is not None:
        return discard("crash:" + crash.bucket)
    shex_text, shacl_text = res
    try:
        doc = shexc.read(shex_text)
    except shexc.ShExCError as e:
        try:
            ht, hshapes, problems = shacl_tuples(shacl_text)
        except Exception:
            return discard("unparsable-both")
        return violation("the SHACL output is readable (%d node shapes) but the ShExC output of the same Shaper is not (%s): %d lines, starts with %r" % (
            len(hshapes), e, shex_text.count("\n"), shex_text[:200]), (), True)
    st_, sshapes = shex_tuples(doc)
    if st_ is None:
        return discard("or-statement")
    try:
        ht, hshapes, problems = shacl_tuples(shacl_text)
    except Exception as e:
        return discard("unparsable-shacl")
    labels = set()
    if case.get("files"):
        labels.add("documents-from-files")
    nonlit = any(t[3][0] in ("nodekind", "node") for t in st_)
    nt = nonlit and any((t[4], t[5]) != (1, 1) for t in st_)
    if nt:
        labels.add("nontrivial")
    for t in st_:
        if t[3][0] == "nodekind":
            labels.add("kind:" + t[3][1])
        if t[1] == "^":
            labels.add("inverse")
        if t[3][0] == "in" and (t[4], t[5]) != (1, 1):
            labels.add("type-constraint-card-not-1")
    viol = list(problems)
    if set(hshapes) != sshapes:
        viol.append("node shapes %s vs ShExC shapes %s" % (sorted(hshapes), sorted(sshapes)))
    if sm is not None:
        labels.add("shape-map")
    sel = common.selection(case, triples) if sm is None else (refmodel.select_by_classes(triples, inst_prop) if sm["with_all"] else {})
    label_of = common.labels_for(sel)
    for c, lab in label_of.items():
        if lab in hshapes and hshapes[lab] != [c] and len(set(label_of.values())) == len(label_of):
            viol.append("sh:targetClass of %s is %s, expected %s" % (lab, hshapes[lab], c))
    if sm is not None:
        # a shape-map label (written <IRI> or as a prefixed name) is not a class: nothing is an instance of it, no sh:targetClass
        classes_shapes = set(label_of.values())
        for lab in sorted(hshapes):
            if lab not in classes_shapes and hshapes[lab] and lab.rsplit("/", 1)[-1] in {it["label"].strip("<>").split(":")[-1].rsplit("/", 1)[-1] for it in sm["items"]}:
                viol.append("sh:targetClass of the shape-map shape %s is %s, expected none (a label is not a class)" % (lab, hshapes[lab]))
    kn = None
    only_shex = st_ - ht
    only_shacl = ht - st_
    if only_shex or only_shacl:
        viol.append("constraints only in ShExC: %s ; only in SHACL: %s" % (sorted(map(str, only_shex))[:3], sorted(map(str, only_shacl))[:3]))
    if viol:
        return violation("; ".join(viol[:3]) + "\n--- ShExC ---\n%s\n--- SHACL ---\n%s" % (shex_text, shacl_text), labels, nt)
    return ok(labels, nt)
