"""C13 - each option changes only what it documents.

Presentation options (disable_comments, decimals, instances_report_mode, namespaces_dict, shapes_namespace, output file vs
string) never change shapes, constraints or cardinalities; decimals=n prints each ratio rounded to n places;
all_instances_are_compliant_mode only rewrites cardinalities of constraints below 100 % to '?'/'*';
allow_opt_cardinality=False only replaces '?' by '*'; disable_exact_cardinality only replaces {k>1} by '+';
disable_or_statements=False only turns a single non-literal constraint into a disjunction over the same alternatives.
Oracle: metamorphic relation between the canonical documents of two fresh Shapers differing in one argument.
"""
import os
from hypothesis import strategies as st
from .. import sut, oracle, common, refmodel, gen_graph as gg
from ..runner import ok, violation, known, discard
from ..rdfmodel import RDF_TYPE
from . import c01

PID = "C13"
OPTIONS = ["disable_comments", "decimals", "instances_report_mode", "namespaces_dict", "shapes_namespace", "file_output",
           "all_instances_are_compliant_mode", "allow_opt_cardinality", "disable_exact_cardinality", "disable_or_statements"]
RULE = ("Hypothesis: general graphs x base configuration (6 switches, threshold, target mode) x one flipped option out of "
        + ", ".join(OPTIONS) + ".  Oracle: per-option metamorphic relation on canonical documents (structure = shapes, keys, "
        "chosen value expression, cardinality); decimals against the exact ratio from the reference profiler.  Non-trivial: the "
        "graph has a feature the flipped option can touch (a constraint below 100 %, a '?', a {k>1}, >=2 non-literal "
        "alternatives, a ratio with >2 decimals, a prefixable IRI); distinct by SHA-1 of the case.")
ASSUMPTIONS = c01.ASSUMPTIONS
BUDGET = {"quick": {"examples": 16000, "wall": 150}, "thorough": {"examples": 150000, "wall": 900}}
FLOORS = {"nontrivial": 0.25}
NS_DICTS = [
    {"http://ex.org/": "ex", "http://www.w3.org/2001/XMLSchema#": "xsd", "http://www.w3.org/1999/02/22-rdf-syntax-ns#": "rdf"},
    {"http://ex.org/": "", "http://ex.org/ns/": "weso-s"},
    {"http://ex.org/ns/": "ns", "http://other.org/v#": "v", "https://data.example/": "shapes"},
    {"http://ex.org/": "a", "http://ex.org/ns/": "b", "http://www.w3.org/2001/XMLSchema#": "xsd"},
]


DOC_PREFIXES = [{"ex": "http://ex.org/ns/"}, {"": "http://ex.org/", "xsd": "http://other.org/v#"},
                {"a": "https://data.example/", "ns": "http://ex.org/", "b": "http://other.org/v#"},
                {"weso-s": "http://ex.org/", "shapes": "http://ex.org/ns/", "rdf": "http://ex.org/"}]


@st.composite
def cases(draw):
    g = draw(gg.general(inst_props=(RDF_TYPE, RDF_TYPE, RDF_TYPE, "http://ex.org/isA"), quirks=draw(gg.quirk_set(one_in=4))))
    cfg = draw(gg.switches())
    cfg["instances_report_mode"] = "mixed"
    if draw(st.integers(0, 3)) == 0:
        cfg["detect_minimal_iri"] = True      # the stem is part of the shape expression: presentation options must keep it
    if draw(st.integers(0, 5)) == 0:
        cfg["inverse_paths"] = True
    if draw(st.integers(0, 5)) == 0:
        cfg["disable_or_statements"] = False
        cfg["allow_redundant_or"] = draw(st.booleans())
    target = draw(common.target_spec(g))
    thr = draw(st.sampled_from([0, 0, 0, 0.5, 1 / 3, 1]))
    opt = draw(st.sampled_from(OPTIONS))
    val = None
    if opt == "decimals":
        val = draw(st.sampled_from([0, 1, 2, 3, 5]))
    elif opt == "instances_report_mode":
        val = draw(st.sampled_from(["ratio", "abs"]))
    elif opt == "namespaces_dict":
        val = draw(st.sampled_from(NS_DICTS))
    elif opt == "shapes_namespace":
        val = draw(st.sampled_from(["http://my.shapes/ns/", "http://ex.org/shapes#", "http://ex.org/ns/shapes/"]))
        if draw(st.booleans()):
            cfg["namespaces_dict"] = draw(st.sampled_from(NS_DICTS))
    doc_prefixes = None
    if opt in ("namespaces_dict", "shapes_namespace", "disable_comments") and draw(st.integers(0, 2)) == 0:
        # the graph arrives as an rdflib Graph carrying its own prefix bindings, some of them using a label that the
        # namespaces_dict under test binds to another namespace (the user's binding has priority, nothing else may change)
        doc_prefixes = draw(st.sampled_from(DOC_PREFIXES))
    if opt == "file_output" and draw(st.integers(0, 7)) == 0:
        # outputs above 5 000 / 10 000 lines cross the serializer's buffer flush once / twice
        g = {"big": draw(st.sampled_from([800, 1500]))}
        target = {"mode": "all"}
    case = {"g": g, "cfg": cfg, "target": target, "thr": thr, "option": opt, "value": val}
    if opt == "file_output" and draw(st.booleans()):
        # the file is written by the Shaper that already returned the text as a string (1-2 earlier calls): still the same text
        case["after_string"] = draw(st.integers(1, 2))
    if doc_prefixes and "big" not in g:
        case["doc_prefixes"] = doc_prefixes
    return case


def strategy(tier):
    return cases()


selftest = c01.selftest


def structure(cdoc, strip_ns=None):
    res = {}
    for lab, cs in cdoc.items():
        if lab == "__dup_labels__":
            continue
        key = refmodel.local_name(lab) if strip_ns else lab
        res[key] = {k: (tuple(_strip(x, strip_ns) for x in e["kinds"]), e["card"]) for k, e in cs.cons.items()}
    return res


def _strip(kind, strip_ns):
    if strip_ns and kind[0] == "ref":
        return ("ref", refmodel.local_name(kind[1]))
    return kind


def diff_struct(a, b):
    out = []
    for lab in sorted(set(a) | set(b)):
        if lab not in a or lab not in b:
            out.append("shape %s only in one output" % lab)
            continue
        for k in sorted(set(a[lab]) | set(b[lab]), key=str):
            if a[lab].get(k) != b[lab].get(k):
                out.append("%s %s: %s vs %s" % (lab, k, a[lab].get(k), b[lab].get(k)))
    return out


def check(case):
    if "big" in case["g"]:
        from . import c18
        case = dict(case, g=c18.big_graph(case["g"]["big"]))
    case = common.expanded(case)
    kw, triples = common.base_kwargs(case)
    cfg = case["cfg"]
    inst_prop = case["g"]["inst_prop"]
    thr = case["thr"]
    opt, val = case["option"], case["value"]
    kw2 = dict(kw)
    file_mode = False
    if opt in ("disable_comments",):
        kw2[opt] = True
    elif opt in ("decimals", "instances_report_mode", "shapes_namespace"):
        kw2[opt] = val
    elif opt == "namespaces_dict":
        kw2[opt] = dict(val)
    elif opt == "file_output":
        file_mode = True
    elif opt == "disable_or_statements":
        kw2[opt] = False
    else:
        kw2[opt] = not cfg.get(opt, {"all_instances_are_compliant_mode": True, "allow_opt_cardinality": True}.get(opt, False))
    if case.get("doc_prefixes"):
        from ..rdfmodel import to_rdflib
        for k_ in (kw, kw2):
            k_.pop("raw_graph", None)
            gr = to_rdflib(common.doc_triples(case, triples))
            for lab_, ns_ in case["doc_prefixes"].items():
                gr.bind(lab_, ns_, override=True, replace=True)
            k_["rdflib_graph"] = gr
    out1, c1 = sut.shex(kw, acceptance_threshold=thr)
    if file_mode:
        with sut.tmpdir() as d:
            path = os.path.join(d, "out.shex")
            r, c2 = sut.shex(kw2, acceptance_threshold=thr, string_output=False, output_file=path,
                             history=[[thr, "ShEx", "string"]] * case.get("after_string", 0) or None)
            out2 = open(path, encoding="utf-8", newline="").read() if c2 is None and os.path.exists(path) else None
            if c2 is None and out2 is None:
                return violation("no file written")
    else:
        out2, c2 = sut.shex(kw2, acceptance_threshold=thr)
    if c1 is not None or c2 is not None:
        if (c1 is None) != (c2 is None):
            return discard("crash-one-side:" + (c1 or c2).bucket)
        return discard("crash:" + c1.bucket)
    try:
        a = oracle.read_canon(out1, inst_prop)
    except oracle.shexc.ShExCError as e:
        if opt in ("disable_comments", "decimals", "instances_report_mode", "namespaces_dict", "shapes_namespace") and out2 is not None:
            try:
                oracle.read_canon(out2, inst_prop)
            except oracle.shexc.ShExCError:
                return discard("unparsable-output")
            # readable only WITH the presentation option: the two outputs cannot state the same constraints
            return violation("without %s=%r the output is not readable as ShExC (%s) while the output with it is\n--- without ---\n%s\n--- with ---\n%s" % (
                opt, val, e, out1[:1500], out2[:1500]), {"opt:" + opt}, True)
        return discard("unparsable-output")
    try:
        b = oracle.read_canon(out2, inst_prop)
    except oracle.shexc.ShExCError as e:
        if opt == "file_output":
            return violation("the file written is not the text returned as string: the string parses, the file does not (%s); "
                             "%d lines in the file, %d in the string" % (e, out2.count("\n"), out1.count("\n")), {"opt:" + opt}, True)
        if opt in ("disable_comments", "decimals", "instances_report_mode", "namespaces_dict", "shapes_namespace"):
            # a presentation option turned a readable schema into an unreadable one: its constraints are not the same any more
            return violation("with %s=%r the output is no longer readable as ShExC (%s) while the output without it is\n--- without ---\n%s\n--- with ---\n%s" % (
                opt, val, e, out1[:1500], out2[:1500]), {"opt:" + opt}, True)
        return discard("unparsable-output")
    if "__dup_labels__" in b and "__dup_labels__" not in a and opt in ("disable_comments", "decimals", "instances_report_mode", "namespaces_dict", "shapes_namespace", "file_output"):
        return violation("with %s=%r several shapes share one label (%s) although the labels are distinct without it\n--- without ---\n%s\n--- with ---\n%s" % (
            opt, val, b["__dup_labels__"], out1[:1500], out2[:1500]), {"opt:" + opt}, True)
    if "__dup_labels__" in a or "__dup_labels__" in b:
        return discard("label-collision")
    labels = {"opt:" + opt}
    if case.get("doc_prefixes"):
        labels.add("rdflib-graph-with-own-prefixes")
    strip = opt == "shapes_namespace"
    sa, sb = structure(a, strip), structure(b, strip)

    def stems(cd):
        return {(refmodel.local_name(lab) if strip else lab): cs.stem for lab, cs in cd.items() if lab != "__dup_labels__" and cs.stem is not None}
    pre_viol = []
    if stems(a) != stems(b):
        pre_viol.append("IRI stems differ: %s vs %s" % (stems(a), stems(b)))
    M, sel, label_of = common.model_for(case, triples)
    nt = False
    viol = []
    kn = None
    lab2S = {v: k for k, v in label_of.items()}

    def line_below_100(cs, e):
        return e["figure"] is not None and e["figure"].get("n") is not None and cs.n is not None and e["figure"]["n"] < cs.n

    if opt in ("disable_comments", "decimals", "instances_report_mode", "namespaces_dict", "shapes_namespace", "file_output"):
        viol = diff_struct(sa, sb)
        if opt == "file_output" and out1 != out2:
            viol.append("file text differs from string text (%d vs %d lines)" % (out2.count("\n"), out1.count("\n")))
        if opt == "file_output" and out1.count("\n") > 5000:
            labels.add("file-over-5000-lines")
        nt = any(len(v) >= 2 for v in sa.values())
        if opt == "decimals":
            cfg2 = dict(cfg)
            finds = [f for f in oracle.compare(b, M, label_of, thr, cfg2, decimals=val) if f.cat in ("RATIO", "OVER100")
                     and f.sig not in ("C01-NONLIT", "C01-NONLIT-KLS")]
            bad = [f for f in finds if f.sig != "C13-DEC0"]
            viol += [repr(f) for f in bad[:3]]
            if finds and not bad:
                kn = "C13-DEC0"
            # precision actually honoured: no ratio printed with more than `val` decimals
            for lab, cs in b.items():
                if lab == "__dup_labels__":
                    continue
                for f in cs.facts:
                    if f[4] is not None and "." in f[4] and len(f[4].split(".")[1]) > max(val, 1) and "e" not in f[4]:
                        viol.append("ratio %s printed with more than %d decimals" % (f[4], val))
                    if f[4] is not None and cs.n and (f[3] or 0) * 1000 % cs.n != 0:
                        nt = True
    elif opt == "all_instances_are_compliant_mode":
        on, off = (b, a) if kw2[opt] else (a, b)
        son, soff = structure(on), structure(off)
        if set(son) != set(soff):
            viol.append("shape sets differ")
        for lab in set(son) & set(soff):
            if set(son[lab]) != set(soff[lab]):
                viol.append("%s: keys differ %s" % (lab, sorted(map(str, set(son[lab]) ^ set(soff[lab])))))
                continue
            for k in son[lab]:
                eoff = off[lab].cons[k]
                if son[lab][k][0] != soff[lab][k][0]:
                    viol.append("%s %s: value expression changed %s -> %s" % (lab, k, soff[lab][k][0], son[lab][k][0]))
                if soff[lab][k][0] == (("kind", "NONLITERAL"),) and eoff["figure"] is not None and lab in lab2S \
                        and eoff["figure"].get("n") != M.plus[lab2S[lab]][k[0]].get(("kind", "NONLITERAL"), 0):
                    kn = "C13-NONLIT"      # merged line carries a summed figure (C01-NONLIT root cause): frequency test unreliable
                    continue
                if line_below_100(off[lab], eoff):
                    nt = True
                    if son[lab][k][1] not in ("?", "*"):
                        viol.append("%s %s: below 100 %% but cardinality %s in all-compliant mode" % (lab, k, son[lab][k][1]))
                elif eoff["figure"] is not None and eoff["figure"].get("n") is not None:
                    if son[lab][k][1] != soff[lab][k][1]:
                        viol.append("%s %s: at 100 %% but cardinality changed %s -> %s" % (lab, k, soff[lab][k][1], son[lab][k][1]))
    elif opt == "allow_opt_cardinality":
        on, off = (b, a) if kw2[opt] else (a, b)       # on = '?' allowed
        son, soff = structure(on), structure(off)
        for lab in set(son) | set(soff):
            for k in set(son.get(lab, {})) | set(soff.get(lab, {})):
                x, y = son.get(lab, {}).get(k), soff.get(lab, {}).get(k)
                if x is None or y is None or x[0] != y[0]:
                    viol.append("%s %s: %s vs %s" % (lab, k, x, y))
                elif x[1] == "?":
                    nt = True
                    if y[1] != "*":
                        viol.append("%s %s: '?' became %s" % (lab, k, y[1]))
                elif x[1] != y[1]:
                    viol.append("%s %s: cardinality %s vs %s" % (lab, k, x[1], y[1]))
                if y is not None and y[1] == "?":
                    viol.append("%s %s: '?' printed with allow_opt_cardinality=False" % (lab, k))
    elif opt == "disable_exact_cardinality":
        on, off = (b, a) if kw2[opt] else (a, b)       # on = exact cardinalities disabled
        son, soff = structure(on), structure(off)
        for lab in set(son) | set(soff):
            for k in set(son.get(lab, {})) | set(soff.get(lab, {})):
                x, y = son.get(lab, {}).get(k), soff.get(lab, {}).get(k)
                if x is None or y is None or x[0] != y[0]:
                    viol.append("%s %s: %s vs %s" % (lab, k, x, y))
                    continue
                c = y[1]
                big = c.startswith("{") and c not in ("{1}",) and int(c.strip("{}")) > 1
                if big:
                    nt = True
                    if x[1] != "+":
                        viol.append("%s %s: %s became %s" % (lab, k, c, x[1]))
                elif x[1] != c:
                    viol.append("%s %s: cardinality %s vs %s" % (lab, k, c, x[1]))
    elif opt == "disable_or_statements":
        base, orr = a, b
        sbase, sor = structure(base), structure(orr)
        if set(sbase) != set(sor):
            viol.append("shape sets differ")
        for lab in set(sbase) & set(sor):
            if set(sbase[lab]) != set(sor[lab]):
                viol.append("%s: keys differ" % lab)
                continue
            for k in sbase[lab]:
                x, y = sbase[lab][k], sor[lab][k]
                if len(y[0]) == 1:
                    if x != y:
                        viol.append("%s %s: %s vs %s" % (lab, k, x, y))
                    continue
                nt = True
                labels.add("or-produced")
                if k[1] != ("nonliteral",):
                    viol.append("%s %s: disjunction on a literal/class key" % (lab, k))
                alts = {x[0][0]} | {f[0] for f in base[lab].cons[k]["facts"]}
                if not set(y[0]) <= alts:
                    viol.append("%s %s: disjunction %s over alternatives not among %s" % (lab, k, y[0], sorted(map(str, alts))))
                if y[1] != x[1]:
                    viol.append("%s %s: cardinality %s vs %s" % (lab, k, x[1], y[1]))
            if any(len(e["facts"]) >= 2 for e in base[lab].cons.values()):
                nt = True
    viol = pre_viol + list(viol)
    if nt:
        labels.add("nontrivial")
    if viol:
        return violation("option %s=%r: %s\n--- base ---\n%s\n--- flipped ---\n%s" % (opt, val, "; ".join(viol[:4]), out1, out2), labels, nt)
    if kn:
        return known(kn, "", labels, nt)
    return ok(labels, nt)


def enumerate_cases(tier):
    """scale family: constraints within 1/n of 100 % on large classes (a rounded or tolerant comparison shows only there)"""
    sizes = [(250, 1, 1), (10001, 1, 1)] if tier == "quick" else [(250, 1, 1), (1000, 1, 2), (10001, 1, 1), (20001, 2, 1)]
    base = {"all_instances_are_compliant_mode": False, "keep_less_specific": True, "discard_useless_constraints_with_positive_closure": True,
            "allow_opt_cardinality": True, "disable_exact_cardinality": False, "inverse_paths": False, "instances_report_mode": "mixed"}
    for sc in sizes:
        for opt, val in (("all_instances_are_compliant_mode", None), ("decimals", 2), ("decimals", 0), ("instances_report_mode", "ratio")):
            yield {"g": {"scale": list(sc)}, "cfg": dict(base), "target": {"mode": "all"}, "thr": 0, "option": opt, "value": val}
