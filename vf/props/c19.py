"""C19 - extraction is deterministic across processes.

Running the same extraction in different interpreter processes (different hash seeds) yields byte-identical ShExC and
isomorphic SHACL graphs; nothing in the result depends on randomness unless all four default shape-namespace prefixes are taken.
Oracle: every case is executed in fresh subprocesses with PYTHONHASHSEED in {0,1,2,3} (thorough: 8 values); SHA-256 of the
ShExC text must be identical; SHACL graphs must have the same canonical form.  For channels whose triple order comes from an
rdflib store (C19-RDFLIBORDER) the byte comparison is replaced by canonical-document equality with the C09 tie fallback.
"""
import os
import sys
import json
import time
import hashlib
import subprocess
import hypothesis
from hypothesis import strategies as st, given, settings, HealthCheck, Phase
from .. import sut, oracle, common, refmodel, fake_endpoint, selectors, gen_graph as gg
from ..runner import ok, violation, known, discard, VERIF, mix_seed
from ..rdfmodel import RDF_TYPE, triples_from_json, to_nt, to_tsv, to_simple_turtle, to_rdflib
from . import c01, c09, c10

PID = "C19"
URL = "http://fake.endpoint/sparql"
RULE = ("Hypothesis-generated cases (graphs x switches x threshold x channel in {raw NT, TSV, TURTLE_ITER, TURTLE via rdflib, rdflib "
        "Graph, shape map with node/FOCUS/SPARQL selectors, fake SPARQL endpoint} x {target_classes, all_classes_mode} x namespaces "
        "dict (on byte-compared channels 1 case in 4 with 1-4 namespaces nested without a separator, examples_mode and detect_minimal_iri on)), each executed in fresh subprocesses under 4 (thorough: 8) PYTHONHASHSEED values: 0, 1 and values that change from batch to batch.  Oracle: identical SHA-256 of "
        "the ShExC text and identical canonical SHACL graph across the seeds; for rdflib-ordered channels canonical-document "
        "equality instead of byte equality.  An evaluation is one case under all seeds.  Non-trivial: >=2 equally frequent constraints "
        "or >=3 target nodes (an order dependence would be visible); distinct by SHA-1 of the case.")
ASSUMPTIONS = ["4 (quick) / 8 (thorough) hash seeds per case: a dependence that shows only for rarer seeds can be missed",
               "rdflib.compare.to_canonical_graph for SHACL isomorphism"]
BUDGET = {"quick": {"examples": 0, "wall": 240, "cases": 2560}, "thorough": {"examples": 0, "wall": 1200, "cases": 8000}}
FLOORS = {"nontrivial": 0.3, "chan:endpoint": 0.05, "chan:sm": 0.05, "byte-compared": 0.3}
RDFLIB_ORDERED = ("turtle", "rdflib", "endpoint-cached")
NESTED = ["http://ex.org/n", "http://ex.org/ns/n", "http://ex.org/ns/C", "http://ex.org/C", "http://other.org/v#n", "https://data.example/n",
          "http://ex.org/p", "http://ex.org/ns/p"]
NS4 = {"http://a.org/": "", "http://b.org/": "weso-s", "http://c.org/": "shapes", "http://d.org/": "w-shapes"}


@st.composite
def hub_graph(draw):
    """1-2 hub nodes of class C0 (with a literal of their own) pointing, through 1-2 properties, to the instances of 2-4 other
    classes that have no triple of their own: with class membership from a separate file those classes are all removed as empty in
    the same cleaning round, and every reference to them must go - whatever the iteration order of the sets involved"""
    k = draw(st.integers(2, 4))
    tr = []
    hubs = ["http://ex.org/h%d" % i for i in range(draw(st.integers(1, 2)))]
    for h in hubs:
        tr.append([["iri", h], RDF_TYPE, ["iri", "http://ex.org/C0"]])
        tr.append([["iri", h], "http://ex.org/label", ["lit", "a", "http://www.w3.org/2001/XMLSchema#string", ""]])
    classes = ["http://ex.org/C0"]
    for j in range(1, k + 1):
        c = gg.class_iri(j)
        classes.append(c)
        for x in range(draw(st.integers(1, 2))):
            node = "http://ex.org/m%d_%d" % (j, x)
            tr.append([["iri", node], RDF_TYPE, ["iri", c]])
            for h in hubs:
                if draw(st.integers(0, 3)) != 0:
                    tr.append([["iri", h], "http://ex.org/p%d" % draw(st.integers(0, 1)), ["iri", node]])
    perm = draw(st.permutations(range(len(tr))))
    return {"triples": [tr[i] for i in perm], "classes": classes, "inst_prop": RDF_TYPE}


@st.composite
def cases(draw):
    chan = draw(st.sampled_from(["nt", "nt", "tsv", "turtle_iter", "turtle", "rdflib", "sm", "endpoint", "ntfiles", "zip", "gz", "split", "split"]))
    split = chan == "split"
    if split:
        chan = "nt"
    nob = chan in ("turtle", "rdflib", "sm", "endpoint")
    g = draw(gg.general(bnodes=not nob, lit_kinds=["word", "lang", "integer"] if chan == "endpoint" else None, max_stmts=22,
                        quirks=draw(gg.quirk_set(allowed=tuple(gg.QUIRKS) + ("odd_class_names", "odd_class_names"), one_in=4))
                        if chan not in ("endpoint", "sm") else []))
    if split and draw(st.booleans()):
        g = draw(hub_graph())
    cfg = draw(gg.switches())
    cfg["instances_report_mode"] = "mixed"
    if chan not in ("sm", "endpoint") and draw(st.integers(0, 4)) == 0:
        # disjunctions: the order of the alternatives of 'p @:A OR @:B OR ...' is part of the text; hub graphs give 2-4 shape alternatives
        cfg["disable_or_statements"] = False
        cfg["allow_redundant_or"] = draw(st.booleans())
        if draw(st.integers(0, 2)) != 0:
            g = draw(hub_graph())
    case = {"g": g, "cfg": cfg, "chan": chan, "thr": draw(st.sampled_from([0, 0, 0.5, 1])), "fmt": draw(st.sampled_from(["ShEx", "ShEx", "Shacl"]))}
    if draw(st.integers(0, 3)) == 0 and chan in ("nt", "tsv", "turtle_iter"):
        # the instantiation triples are filtered out of the feature pass: shapes can become empty at higher thresholds,
        # which exercises the removal code on a byte-compared channel
        cfg["namespaces_to_ignore"] = ["http://www.w3.org/1999/02/22-rdf-syntax-ns#"]
        case["thr"] = draw(st.sampled_from([0.5, 0.6, 0.75, 1]))
    if chan == "sm":
        n = draw(st.integers(1, 4))
        case["thr"] = draw(st.sampled_from([0, 0.5, 0.75, 1]))
        case["items"] = [{"sel": draw(c10.selector(g)), "label": {"form": "full", "name": "S%d" % i},
                          "styles": draw(st.lists(st.integers(0, 1), min_size=4, max_size=4))} for i in range(n)]
    else:
        case["target"] = draw(common.target_spec(g))
        if case["target"]["mode"] == "classes" and draw(st.integers(0, 3)) == 0:
            # the same class named twice (another spelling): still one shape per class, in the order of the list
            cs = case["target"]["classes"]
            k = draw(st.integers(0, len(cs) - 1))
            if not cs[k].startswith("_:"):
                cs.insert(draw(st.integers(0, len(cs))), draw(st.sampled_from(["<%s>" % cs[k], cs[k]])))
    if chan == "endpoint":
        case["cache_off"] = draw(st.booleans())
    if split:
        # class membership from a separate instances file, some instances without a triple of their own (their shapes are
        # removed as empty at profiling time and the references to them cleaned)
        case["split_instances"] = {"bare": draw(st.lists(st.integers(0, 7), min_size=0, max_size=3)),
                                   "hollow": draw(st.lists(st.integers(0, 3), min_size=1, max_size=3, unique=True))}
    if chan in ("ntfiles", "zip"):
        case["parts"] = draw(st.integers(2, 5))       # files of the list / members of the archive (statement i goes to part i % parts)
    if chan in ("nt", "tsv", "turtle_iter", "ntfiles", "zip", "gz") and draw(st.integers(0, 3)) == 0:
        # namespaces nested WITHOUT a separator between them (http://ex.org/ns/ and http://ex.org/ns/n, as obo/ and obo/GO_): two
        # prefixes can abbreviate the same IRI, the first declared one has to win in every process.  Examples / minimal IRIs
        # are switched on because the instance IRIs are what those namespaces abbreviate (byte-compared channels only).
        case["nested_ns"] = draw(st.lists(st.sampled_from(NESTED), min_size=1, max_size=4, unique=True))
        case["nested_first"] = draw(st.booleans())
        cfg["examples_mode"] = draw(st.sampled_from(["all", "all", "shape", "cons"]))
        cfg["detect_minimal_iri"] = draw(st.booleans())
    k = draw(st.integers(0, 7))
    if k == 0:
        case["all_prefixes_taken"] = True      # the documented exception: a random prefix is chosen
    elif k in (1, 2, 3) and chan != "sm":
        case["prefixes_taken"] = k             # 1..3 of the four default shape prefixes are taken: still deterministic
    return case


def run_case_here(case):
    """executed inside the child process"""
    g = case["g"]
    triples = triples_from_json(g["triples"])
    cfg = dict(case["cfg"])
    kw = dict(cfg)
    kw["instantiation_property"] = g["inst_prop"]
    kw["namespaces_dict"] = dict(NS4) if case.get("all_prefixes_taken") else dict(c10.NSD)
    if case.get("prefixes_taken"):
        kw["namespaces_dict"] = dict(list(NS4.items())[:case["prefixes_taken"]])
    if case.get("nested_ns"):
        extra = {ns: "n%d" % NESTED.index(ns) for ns in case["nested_ns"]}
        base = kw["namespaces_dict"]
        kw["namespaces_dict"] = dict(list(extra.items()) + list(base.items())) if case.get("nested_first") \
            else dict(list(base.items()) + list(extra.items()))
    chan = case["chan"]
    tmpd = None
    if chan == "sm":
        lines = ["%s@%s" % (selectors.render(it["sel"], c10.NSD, it["styles"]), c10.label_text(it["label"])) for it in case["items"]]
        kw["shape_map_raw"] = "\n".join(lines)
        kw["namespaces_dict"] = dict(c10.NSD)
        kw["raw_graph"] = to_nt(triples)
    else:
        tgt = case["target"]
        if tgt["mode"] == "all":
            kw["all_classes_mode"] = True
        else:
            kw["target_classes"] = list(tgt["classes"])
        if chan == "nt" and case.get("split_instances") is not None:
            import tempfile
            tmpd = tempfile.mkdtemp(prefix="vfc19.")
            kw = common.deliver_split(kw, triples, g["inst_prop"], case["split_instances"], tmpd)
        elif chan == "nt":
            kw["raw_graph"] = to_nt(triples)
        elif chan == "tsv":
            kw["raw_graph"] = to_tsv(triples)
            kw["input_format"] = "tsv_spo"
        elif chan in ("turtle", "turtle_iter"):
            kw["raw_graph"] = to_simple_turtle(triples, {"ex": "http://ex.org/"})
            kw["input_format"] = chan
        elif chan == "rdflib":
            kw["rdflib_graph"] = to_rdflib(triples)
        elif chan in ("ntfiles", "zip", "gz"):
            import tempfile, zipfile, gzip
            tmpd = tempfile.mkdtemp(prefix="vfc19.")
            k = case.get("parts", 1)
            # member / file names are chosen so that their order by name, by hash and by position all differ
            names = ["m_%s.nt" % w for w in ("kilo", "alpha", "zulu", "echo", "bravo")][:k]
            parts = [to_nt([t for i, t in enumerate(triples) if i % k == j]) for j in range(k)]
            if chan == "ntfiles":
                paths = []
                for nm, txt in zip(names, parts):
                    pth = os.path.join(tmpd, nm)
                    open(pth, "w", encoding="utf-8").write(txt)
                    paths.append(pth)
                kw["graph_list_of_files_input"] = paths
            elif chan == "zip":
                pth = os.path.join(tmpd, "g.zip")
                with zipfile.ZipFile(pth, "w") as z:
                    for nm, txt in zip(names, parts):
                        z.writestr(nm, txt)
                kw["graph_file_input"] = pth
                kw["compression_mode"] = "zip"
            else:
                pth = os.path.join(tmpd, "g.nt.gz")
                with gzip.open(pth, "wt", encoding="utf-8") as f:
                    f.write(to_nt(triples))
                kw["graph_file_input"] = pth
                kw["compression_mode"] = "gz"
        elif chan == "endpoint":
            kw["url_endpoint"] = URL
            kw["disable_endpoint_cache"] = bool(case.get("cache_off"))
    rec = {}

    def go():
        sh = sut.Shaper(**kw)
        return sh.shex_graph(string_output=True, acceptance_threshold=case["thr"], output_format=case["fmt"])
    if chan == "endpoint":
        with fake_endpoint.serving(URL, triples):
            text, crash = sut.guarded(go, 60)
    else:
        text, crash = sut.guarded(go, 60)
    if tmpd is not None:
        import shutil
        shutil.rmtree(tmpd, ignore_errors=True)
    if crash is not None:
        rec["err"] = crash.bucket
        return rec
    if case["fmt"] == "ShEx":
        rec["shex"] = text
    else:
        import rdflib
        from rdflib.compare import to_canonical_graph
        gr = rdflib.Graph()
        gr.parse(data=text, format="turtle")
        can = sorted(to_canonical_graph(gr).serialize(format="nt").splitlines())
        rec["shacl"] = hashlib.sha256("\n".join(can).encode()).hexdigest()
    return rec


def run_batch(cases_, seeds, tmp):
    """returns {seed: [records]}"""
    path = os.path.join(tmp, "batch.json")
    with open(path, "w") as f:
        json.dump(cases_, f)
    out = {}
    procs = []
    for hs in seeds:
        env = dict(os.environ)
        env["PYTHONHASHSEED"] = str(hs)
        env["PYTHONPATH"] = VERIF + os.pathsep + env.get("PYTHONPATH", "")
        procs.append((hs, subprocess.Popen([sys.executable, "-W", "ignore", "-m", "vf.c19_child", path], cwd=VERIF, env=env,
                                           stdout=subprocess.PIPE, stderr=subprocess.PIPE)))
    for hs, p in procs:
        so, se = p.communicate(timeout=1800)
        recs = [json.loads(l) for l in so.decode().splitlines() if l.strip().startswith("{")]
        if len(recs) != len(cases_):
            raise RuntimeError("child with PYTHONHASHSEED=%s returned %d records for %d cases\n%s" % (hs, len(recs), len(cases_), se.decode()[-2000:]))
        out[hs] = recs
    return out


def judge(case, recs_by_seed):
    """recs_by_seed: {seed: record} for one case"""
    labels = {"chan:" + case["chan"], "fmt:" + case["fmt"]}
    chan_kind = case["chan"]
    if chan_kind == "endpoint" and not case.get("cache_off"):
        chan_kind = "endpoint-cached"     # cached neighbourhoods are re-read from a local rdflib store (hash order)
    seeds = sorted(recs_by_seed)
    errs = {hs: r["err"] for hs, r in recs_by_seed.items()}
    g = case["g"]
    triples = triples_from_json(g["triples"])
    sel = refmodel.select_by_classes(triples, g["inst_prop"])
    nodes = {n for v in sel.values() for n in v}
    nt = len(nodes) >= 3
    if nt:
        labels.add("nontrivial")
    if any(errs.values()):
        if len(set(errs.values())) > 1:
            return violation("outcome differs across hash seeds: %s" % errs, labels, nt)
        return discard("crash:" + str(errs[seeds[0]]))
    if case.get("all_prefixes_taken"):
        labels.add("all-default-prefixes-taken")
    if case.get("prefixes_taken"):
        labels.add("some-default-prefixes-taken")
    key = "shex" if case["fmt"] == "ShEx" else "shacl"
    vals = {hs: recs_by_seed[hs][key] for hs in seeds}
    if len(set(vals.values())) == 1:
        labels.add("byte-compared")
        return ok(labels, nt)
    if case.get("all_prefixes_taken"):
        return ok(labels | {"random-prefix-exception"}, nt)
    if case["fmt"] != "ShEx":
        if chan_kind in RDFLIB_ORDERED:
            return known("C19-RDFLIBORDER", "SHACL graphs differ across hash seeds on an rdflib-ordered channel", labels, nt)
        return violation("SHACL graphs are not isomorphic across hash seeds %s" % seeds, labels, nt)
    a_seed = seeds[0]
    for hs in seeds[1:]:
        if vals[hs] != vals[a_seed]:
            b_seed = hs
            break
    if chan_kind not in RDFLIB_ORDERED:
        return violation("ShExC text differs between PYTHONHASHSEED=%s and %s\n--- %s ---\n%s\n--- %s ---\n%s" % (
            a_seed, b_seed, a_seed, vals[a_seed], b_seed, vals[b_seed]), labels, nt)
    # rdflib-ordered channel: canonical documents must still agree (tie fallback as in C09)
    inst_prop = g["inst_prop"]
    try:
        docs = {hs: oracle.read_canon(vals[hs], inst_prop) for hs in seeds}
    except oracle.shexc.ShExCError:
        return discard("unparsable-output")
    if case["chan"] == "sm":
        full_sel = {}
        for it in case["items"]:
            lst = full_sel.setdefault(it["label"]["name"], [])
            for a in selectors.evaluate(it["sel"], triples):
                if a[1] not in lst:
                    lst.append(a[1])
        label_of = {k: c10.LABEL_NS + k for k in full_sel}
    else:
        tgt = case["target"]
        full_sel = refmodel.select_by_classes(triples, inst_prop, None if tgt["mode"] == "all" else set(tgt["classes"]))
        label_of = {c: refmodel.class_label(c) for c in full_sel}
    M = refmodel.Model(triples, full_sel, label_of, inst_prop, case["cfg"].get("inverse_paths", False))
    kn = False
    for hs in seeds[1:]:
        viol, k = c09.compare_docs(docs[a_seed], docs[hs], M, label_of, case["thr"], case["cfg"].get("keep_less_specific", True), None,
                                   case["cfg"].get("disable_exact_cardinality", False))
        if viol:
            return violation("canonical documents differ between PYTHONHASHSEED=%s and %s on channel %s: %s\n--- %s ---\n%s\n--- %s ---\n%s" % (
                a_seed, hs, case["chan"], "; ".join(viol[:3]), a_seed, vals[a_seed], hs, vals[hs]), labels, nt)
        kn = kn or bool(k)
    labels.add("canonical-compared")
    return known("C19-RDFLIBORDER", "text differs only in order / tie-breaks on an rdflib-ordered channel", labels, nt)


def check(case):
    """replay entry point: runs the single case under the quick seed set"""
    with sut.tmpdir() as tmp:
        res = run_batch([case], case.get("hash_seeds") or [0, 1, 2, 3], tmp)
    return judge(case, {hs: res[hs][0] for hs in res})


def collect_cases(n, seed):
    got = []

    @hypothesis.seed(seed)
    @settings(max_examples=n, database=None, deadline=None, suppress_health_check=list(HealthCheck), phases=[Phase.generate],
              verbosity=hypothesis.Verbosity.quiet)
    @given(cases())
    def t(c):
        got.append(c)
    t()
    return got


def run_shard(tier, seed, w, W, stats, deadline):
    total = BUDGET[tier]["cases"]
    n = (total + W - 1) // W
    cs = collect_cases(n, mix_seed(seed, PID, w))
    B = 25
    for i in range(0, len(cs), B):
        if time.time() > deadline:
            stats.skipped_wall += len(cs) - i
            break
        batch = cs[i:i + B]
        # hash seeds: 0 and 1 always, the others change from batch to batch (a pure function of VERIF_SEED, worker and batch), so
        # that a dependence showing only for some seeds is not tied to one fixed quadruple; the seeds are stored in the case
        k = 2 if tier == "quick" else 6
        seeds = [0, 1] + [1 + mix_seed(seed, PID + ":hs", w * 100003 + i * 7 + j) % 4294967290 for j in range(k)]
        for c in batch:
            c["hash_seeds"] = seeds
        with sut.tmpdir() as tmp:
            res = run_batch(batch, seeds, tmp)
        for j, case in enumerate(batch):
            out = judge(case, {hs: res[hs][j] for hs in seeds})
            stats.record(case, out)
        if stats.status.get("violation", 0) >= 3:
            break
