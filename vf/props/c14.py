"""C14 - inverse paths add incoming-link constraints and leave the rest untouched.

Enabling inverse_paths leaves every shape's instance count and outgoing constraints exactly as without it, and the
incoming constraints it adds are exactly the outgoing constraints obtained from the graph with every non-literal
triple reversed (same keys, cardinalities and figures, with '^').
Oracle: three runs - G with inverse_paths, G without, rev(G) without - compared on canonical documents.
"""
from hypothesis import strategies as st
from .. import sut, oracle, common, refmodel, gen_graph as gg
from ..runner import ok, violation, known, discard
from ..rdfmodel import RDF_TYPE, to_nt
from . import c01

PID = "C14"
RULE = ("Hypothesis: general graphs (IRI nodes; blank-node subjects in a labelled minority) x switches x or-flags x threshold x target mode.  "
        "Three runs: G with inverse_paths, G without, rev(G) without (rev = instantiation triples + every non-literal triple "
        "reversed under a fresh predicate).  Oracle: (1) instance counts and every outgoing constraint (value, cardinality, figure, "
        "comment facts) identical in the first two; (2) '^p' constraints of run 1 == p' constraints of run 3; under a frequency tie "
        "or for blank-node subjects only keys and commonly printed figures are compared.  Non-trivial: >=1 incoming link between "
        "typed nodes; distinct by SHA-1 of the case.")
ASSUMPTIONS = c01.ASSUMPTIONS
BUDGET = {"quick": {"examples": 10000, "wall": 150}, "thorough": {"examples": 150000, "wall": 900}}
FLOORS = {"nontrivial": 0.3, "strict": 0.3}
SUFFIX = "_rev"


@st.composite
def cases(draw):
    bn = draw(st.integers(0, 3)) == 0
    g = draw(gg.general(bnodes=bn, inst_props=(RDF_TYPE, RDF_TYPE, RDF_TYPE, "http://ex.org/isA"), iri_like_literals=draw(st.integers(0, 3)) == 0, quirks=draw(gg.quirk_set(one_in=4))))
    if draw(st.integers(0, 7)) == 0:
        g = draw(gg.fan_graph())
        bn = any(t[0][0] == "bnode" for t in g["triples"])
    cfg = draw(gg.switches(extra=("disable_exact_cardinality",)))
    cfg["instances_report_mode"] = "mixed"
    if draw(st.integers(0, 3)) == 0:
        cfg["disable_or_statements"] = False       # disjunctions must keep their direction too
        if draw(st.booleans()):
            cfg["allow_redundant_or"] = True
    target = draw(common.target_spec(g))
    if draw(st.integers(0, 3)) == 0:
        # empty shapes are kept: a requested class without instances reports 0 instances with and without inverse paths
        cfg["remove_empty_shapes"] = False
        if target["mode"] == "classes":
            target["classes"] = target["classes"] + ["http://ex.org/C9"]
    thr = draw(st.sampled_from([0, 0, 0, 0.5, 1 / 3, 2 / 3, 1]))
    if not bn and draw(st.integers(0, 4)) == 0:
        # shape-map targets (first clause only): shape-map shapes can be empty, which is when the clean-up of references runs
        from . import c10
        n = draw(st.integers(1, 3))
        target = {"mode": "sm", "with_all": draw(st.booleans()),
                  "items": [{"sel": draw(c10.selector(g)) if draw(st.integers(0, 3)) else {"kind": "node", "iri": "http://ex.org/nothing"},
                             "label": "<http://sh.org/S%d>" % i, "styles": draw(st.lists(st.integers(0, 1), min_size=4, max_size=4))} for i in range(n)]}
    return {"g": g, "cfg": cfg, "target": target, "thr": thr}


def strategy(tier):
    return cases()


selftest = c01.selftest


def entry_view(e):
    return (e["kinds"], e["card"], (e["figure"] or {}).get("n"), (e["figure"] or {}).get("ratio"), sorted(map(str, e["facts"])))


def check_sm(case):
    """shape-map targets: inverse_paths leaves instance counts and outgoing constraints as they are (first clause).
    Scope: a shape-map shape whose nodes have only incoming links EXISTS only with inverse paths (without them it has no
    constraint and is removed, together with every reference to it).  Outgoing constraints that mention such a shape cannot be 'as
    without inverse paths' by construction - the property is about class shapes, which always exist - so they are left out of the
    comparison; everything else must be identical, no shape may lose anything else, and no key may be printed twice."""
    from .. import selectors
    from . import c10
    sm = case["target"]
    kw, triples = common.base_kwargs(dict(case, target={"mode": "all"}))
    for it in sm["items"]:
        if any(a_[0] != "iri" for a_ in selectors.evaluate(it["sel"], triples)):
            return discard("non-iri-answer")
    if not sm["with_all"]:
        kw.pop("all_classes_mode", None)
    kw["shape_map_raw"] = "\n".join("%s@%s" % (selectors.render(it["sel"], c10.NSD, it["styles"]), it["label"]) for it in sm["items"])
    kw["namespaces_dict"] = dict(c10.NSD)
    inst_prop = case["g"]["inst_prop"]
    outs = []
    for inv in (True, False):
        text, crash = sut.shex(dict(kw, inverse_paths=inv), acceptance_threshold=case["thr"])
        if crash is not None:
            return discard("crash:" + crash.bucket)
        outs.append(text)
    try:
        a, b = oracle.read_all(outs, inst_prop)
    except oracle.OneSided as e:
        return violation(str(e), (), True)
    except oracle.shexc.ShExCError:
        return discard("unparsable-output")
    if "__dup_labels__" in a or "__dup_labels__" in b:
        return discard("label-collision")
    labels = {"shape-map"}
    if len(b) < len(sm["items"]) + (1 if sm["with_all"] else 0):
        labels.add("shape-removed")
    only_with_inverse = {lab for lab in a if lab not in b}

    def mentions_inverse_only_shape(e):
        refs = {k[1] for k in e["kinds"] if k[0] == "ref"} | {f[0][1] for f in e["facts"] if f[0][0] == "ref"}
        return bool(refs & only_with_inverse)
    viol = []
    for lab in set(a) | set(b):
        if lab in a and a[lab].dups:
            viol.append("%s: constraint keys printed twice with inverse_paths: %s" % (lab, a[lab].dups[:2]))
        if lab not in a:
            viol.append("shape %s exists without inverse_paths but not with it" % lab)
            continue
        out_a = {k: e for k, e in a[lab].cons.items() if k[0][0] == "d"}
        if lab not in b:
            rest = [k for k, e in out_a.items() if not mentions_inverse_only_shape(e)]
            if rest:
                viol.append("shape %s has outgoing constraints %s with inverse_paths but does not exist without it" % (lab, rest[:2]))
            else:
                labels.add("shape-only-with-inverse-paths")
            continue
        if a[lab].n != b[lab].n:
            viol.append("%s: instance count %s with inverse_paths, %s without" % (lab, a[lab].n, b[lab].n))
        out_b = {k: e for k, e in b[lab].cons.items() if k[0][0] == "d"}
        for k in set(out_a) | set(out_b):
            if k in out_a and mentions_inverse_only_shape(out_a[k]):
                labels.add("constraint-mentions-inverse-only-shape")
                continue
            va = entry_view(out_a[k]) if k in out_a else None
            vb = entry_view(out_b[k]) if k in out_b else None
            if va != vb:
                viol.append("%s: outgoing constraint %s changed by inverse_paths: %s vs %s" % (lab, k, va, vb))
    nt = any(k[0][0] == "i" for lab in a if lab != "__dup_labels__" for k in a[lab].cons)
    if nt:
        labels.add("nontrivial")
    if viol:
        return violation("; ".join(viol[:3]) + "\nshape map:\n%s\n--- inverse ---\n%s\n--- without ---\n%s" % (kw["shape_map_raw"], outs[0], outs[1]), labels, nt)
    return ok(labels, nt)


def check(case):
    if case["target"]["mode"] == "sm":
        return check_sm(case)
    kw, triples = common.base_kwargs(case)
    cfg = case["cfg"]
    inst_prop = case["g"]["inst_prop"]
    thr = case["thr"]
    kw_inv = dict(kw, inverse_paths=True)
    kw_no = dict(kw, inverse_paths=False)
    rev = [(s, p, o) for s, p, o in triples if p == inst_prop] + \
          [(o, p + SUFFIX, s) for s, p, o in triples if p != inst_prop and o[0] != "lit"]
    kw_rev = dict(kw_no, raw_graph=to_nt(rev))
    outs = []
    for k in (kw_inv, kw_no, kw_rev):
        text, crash = sut.shex(k, acceptance_threshold=thr)
        if crash is not None:
            return discard("crash:" + crash.bucket)
        outs.append(text)
    try:
        a, b, c = oracle.read_all(outs, inst_prop)
    except oracle.OneSided as e:
        return violation(str(e), (), True)
    except oracle.shexc.ShExCError:
        return discard("unparsable-output")
    if any("__dup_labels__" in d for d in (a, b, c)):
        return discard("label-collision")
    case_inv = dict(case, cfg=dict(cfg, inverse_paths=True))
    M, sel, label_of = common.model_for(case_inv, triples)
    lab2S = {v: k for k, v in label_of.items()}
    labels = set()
    bsubj = any(s[0] == "bnode" and o[0] != "lit" and p != inst_prop for s, p, o in triples)
    labels.add("bnode-subjects" if bsubj else "strict")
    typed = set(M.member)
    nt = any(p != inst_prop and o[0] != "lit" and o[1] in typed and s[1] in typed for s, p, o in triples)
    if nt:
        labels.add("nontrivial")
    viol = []
    kn = None
    kls = cfg.get("keep_less_specific", True)
    # (1) with vs without: instance counts and outgoing constraints
    for lab in set(a) | set(b):
        if lab not in a or lab not in b:
            # a shape may exist only thanks to incoming constraints? no: every class-based shape has its instantiation constraint
            viol.append("shape %s present in only one of the runs with/without inverse_paths" % lab)
            continue
        if a[lab].n != b[lab].n:
            viol.append("%s: instance count %s with inverse_paths, %s without" % (lab, a[lab].n, b[lab].n))
        da = {k: entry_view(e) for k, e in a[lab].cons.items() if k[0][0] == "d"}
        db = {k: entry_view(e) for k, e in b[lab].cons.items() if k[0][0] == "d"}
        if da != db:
            ks = [k for k in set(da) | set(db) if da.get(k) != db.get(k)]
            viol.append("%s: outgoing constraints changed by inverse_paths: %s: %s vs %s" % (lab, ks[0], da.get(ks[0]), db.get(ks[0])))
    # (2) incoming constraints == outgoing constraints of the reversed graph
    for lab in set(a) | set(c):
        ia = {k: e for k, e in (a[lab].cons.items() if lab in a else []) if k[0][0] == "i" and k[0][1] != inst_prop}
        ic = {(("i", k[0][1][:-len(SUFFIX)]), k[1]): e for k, e in (c[lab].cons.items() if lab in c else [])
              if k[0][1].endswith(SUFFIX)}
        if set(ia) != set(ic) and bsubj and all(
                lab in lab2S and M.mixed_kind_signature(lab2S[lab], k[0], thr) for k in set(ia) ^ set(ic)):
            # blank-node sources of incoming links carry no shape reference (documented asymmetry), so the incoming
            # alternatives may all stay below the threshold (C02-MIXEDKIND) while the reversed graph keeps a reference
            kn = "C02-MIXEDKIND"
            continue
        if set(ia) != set(ic):
            viol.append("%s: incoming keys %s vs reversed-graph keys %s" % (lab, sorted(map(str, ia)), sorted(map(str, ic))))
            continue
        for k in ia:
            va, vc = entry_view(ia[k]), entry_view(ic[k])
            if va == vc:
                continue
            S = lab2S.get(lab)
            tie = S is None or M.has_tie(S, k[0], thr, kls)
            if bsubj:
                labels.add("lenient-compare")
                continue
            if tie:
                kn = "C14-TIE"
                continue
            viol.append("%s %s: with inverse_paths %s, reversed graph %s" % (lab, k, va, vc))
    if viol:
        return violation("; ".join(viol[:3]) + "\n--- inverse ---\n%s\n--- without ---\n%s\n--- reversed ---\n%s" % tuple(outs), labels, nt)
    if kn:
        return known(kn, "", labels, nt)
    return ok(labels, nt)
