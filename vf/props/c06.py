"""C06 - the N-Triples reader yields exactly the triples of the document.

Domain (properties.jsonl): single-line N-Triples statements; IRIs containing # @ _ : ; blank-node labels; literals
whose content is any string up to length L over an adversarial token alphabet x every suffix form; separators
space/tab/multiple; optional trailing comment; no space before the final dot.  Exhaustive for L<=3 (quick) / L<=5
(thorough) over the alphabet, Hypothesis beyond (L<=12, documents of 1-5 lines, comment and blank lines).
Oracle: the abstract triple each line was built from (rdflib's N-Triples parser must agree with the generator,
else the case is discarded and counted): same count and order, node kinds, IRIs, blank-node labels, literal
datatype; error_triples == 0.  Literal content is not compared (not in the property).
"""
import itertools
import time
from hypothesis import strategies as st
from .. import sut
from ..runner import ok, violation, known, discard, Outcome
from ..rdfmodel import XSD, XSD_STRING, LANGSTRING

PID = "C06"
RULE = ("Bounded-exhaustive: every literal content of <=3 (quick) / <=5 (thorough) tokens over a 24-token adversarial "
        "alphabet x 6 suffixes x 4 tails, separators/subject forms cycled; plus Hypothesis documents (1-5 lines, content "
        "<=12 tokens, IRI/bnode objects, comment lines).  Oracle: abstract triples (kind, IRI, bnode label, datatype), order, "
        "error_triples==0; rdflib cross-checks the generator.  Non-trivial: literal contains a special token or has a suffix, "
        "or the tail is not ' .'; distinct by statement text.")
ASSUMPTIONS = ["generator builds valid N-Triples by construction; rdflib 6.0.2 NT parser cross-checks a sample of the enumeration "
               "and every Hypothesis case", "non-termination is detected by a 5 s alarm and confirmed by a line-event bound"]
BUDGET = {"quick": {"examples": 16000, "wall": 240}, "thorough": {"examples": 400000, "wall": 900}}
EXHAUSTIVE = {"quick": True, "thorough": True}
# coverage-guided supplement (vf/fuzz.py): libFuzzer runs per shard, 16 shards
FUZZ = {"quick": {"runs": 6000, "wall": 120}, "thorough": {"runs": 60000, "wall": 600}}
FLOORS = {"nontrivial": 0.5}

from vf.sut import shexer  # noqa
from shexer.io.graph.yielder.nt_triples_yielder import NtTriplesYielder  # noqa
from shexer.model.IRI import IRI as MIRI  # noqa
from shexer.model.bnode import BNode as MBNode  # noqa
from shexer.model.Literal import Literal as MLiteral  # noqa
from shexer.model.property import Property as MProperty  # noqa

# (escaped text, is "special")
TOKENS = ["a", " ", '\\"', "\\\\", "@", "^^", "#", " .", "<", ">", "xsd:", "geo:", "rdf:", "dt:", "%", "1", "_", "_:",
          "é", "\\u00E9", ".", ":", "\u2028", "\u0085"]
PLAIN_TOKENS = {"a", "1"}
SUFFIXES = [("", XSD_STRING), ("@en", LANGSTRING), ("@en-GB", LANGSTRING),
            ("^^<" + XSD + "int>", XSD + "int"), ("^^<http://ex.org/dt/custom>", "http://ex.org/dt/custom"),
            ("^^<http://ex.org/dt@x>", "http://ex.org/dt@x")]
TAILS = [" .", ".", " . # c", ' . # "q" @x', ". # c", ".# c"]
SEPS = [" ", "\t", "  "]
SUBJECTS = [("<http://ex.org/s>", ("iri", "http://ex.org/s")), ("_:b1", ("bnode", "_:b1")),
            ("<http://ex.org/a#b@c_d:e>", ("iri", "http://ex.org/a#b@c_d:e")),
            ("_:b12", ("bnode", "_:b12")), ("<http://ex.org/caf\u00e9/\u65e5>", ("iri", "http://ex.org/caf\u00e9/\u65e5")),
            ("_:b1x", ("bnode", "_:b1x")),       # labels that extend the label of another subject
            ("<http://ex.org/p>", ("iri", "http://ex.org/p")),       # an IRI that is also used as a predicate (a property described in the data)
            ("<http://ex.org/ns#p_1@x>", ("iri", "http://ex.org/ns#p_1@x"))]
PREDS = [("<http://ex.org/p>", "http://ex.org/p"), ("<http://ex.org/ns#p_1@x>", "http://ex.org/ns#p_1@x")]
NONLIT_OBJECTS = [("<http://ex.org/o>", ("iri", "http://ex.org/o")), ("<http://ex.org/o#x@y>", ("iri", "http://ex.org/o#x@y")),
                  ("_:o1", ("bnode", "_:o1")), ("_:o-1", ("bnode", "_:o-1")), ("_:o.1", ("bnode", "_:o.1")),
                  ("<urn:x:y>", ("iri", "urn:x:y")), ("_:B_2", ("bnode", "_:B_2")),
                  ("<http://ex.org/p>", ("iri", "http://ex.org/p")), ("<http://ex.org/ns#p_1@x>", ("iri", "http://ex.org/ns#p_1@x"))]


def build_line(si, pi, otext, sep, tail):
    return SUBJECTS[si][0] + sep + PREDS[pi][0] + sep + otext + tail


def lit_text(tokens, sfx):
    return '"' + "".join(tokens) + '"' + SUFFIXES[sfx][0]


def project(tr):
    """yielded model triple -> comparable tuple"""
    s, p, o = tr

    def pr(x):
        if isinstance(x, MIRI):
            return ("iri", x.iri)
        if isinstance(x, MBNode):
            return ("bnode", str(x))
        if isinstance(x, MLiteral):
            return ("lit", x.elem_type)
        return ("?", repr(x))
    return (pr(s), p.iri if isinstance(p, MProperty) else repr(p), pr(o))


def read_doc(text, timeout=5.0, chan="raw"):
    """chan: how the document reaches the reader - a raw string, a file, or a gz / xz compressed file (the line readers named in
    the property's anchors); the content is the same"""
    def go():
        if chan == "raw":
            y = NtTriplesYielder(raw_graph=text)
            res = [project(t) for t in y.yield_triples()]
            return res, y.error_triples
        import os
        import gzip
        import lzma
        with sut.tmpdir() as d:
            path = os.path.join(d, "doc.nt" + {"file": "", "gz": ".gz", "xz": ".xz"}[chan])
            data = text.encode("utf-8")
            if chan == "file":
                with open(path, "wb") as f:
                    f.write(data)
            elif chan == "gz":
                with gzip.open(path, "wb") as f:
                    f.write(data)
            else:
                with lzma.open(path, "wb") as f:
                    f.write(data)
            y = NtTriplesYielder(source_file=path, compression_mode=None if chan == "file" else chan)
            res = [project(t) for t in y.yield_triples()]
            return res, y.error_triples
    return sut.guarded(go, timeout)


def rdflib_expect(line, fmt="nt"):
    """second opinion on the generator: rdflib's parse of the line, projected"""
    import rdflib
    from ..rdfmodel import from_rdflib_term
    g = rdflib.Graph()
    g.parse(data=line + "\n", format=fmt)
    out = []
    for s, p, o in g:
        def pr(t):
            t = from_rdflib_term(t)
            return ("lit", t[2]) if t[0] == "lit" else (t[0], t[1] if t[0] == "iri" else None)
        out.append((pr(s), str(p), pr(o)))
    return out


def crosscheck(line, exp):
    """True if rdflib agrees with the expected projection (bnode labels are not preserved by rdflib -> kind only)."""
    try:
        got = rdflib_expect(line)
    except Exception:
        try:
            # N-Triples needs no white space between terms; rdflib's N-Triples parser insists on it, its Turtle parser
            # (N-Triples is a subset of Turtle) does not
            got = rdflib_expect(line, "turtle") if ("><" in line or '>"' in line or ">_:" in line) else None
        except Exception:
            got = None
        if got is None:
            return False
    if len(got) != 1:
        return False

    def strip(t):
        return ("bnode", None) if t[0] == "bnode" else t
    g = got[0]
    return (strip(exp[0]), exp[1], strip(exp[2])) == (strip(g[0]), g[1], strip(g[2]))


def is_nontrivial(stmt):
    if stmt["tail"] != " .":
        return True
    ot = stmt["otext"]
    if not ot.startswith('"'):
        return False
    body = ot[1:ot.rfind('"')]
    return (ot.rfind('"') != len(ot) - 1) or any(ch not in "a1" for ch in body)


def expected_of(stmt):
    return (tuple(SUBJECTS[stmt["s"]][1]), PREDS[stmt["p"]][1], tuple(stmt["oexp"]))


def check(case, do_crosscheck=True):
    """case: {"stmts": [{"s": idx, "p": idx, "otext": str, "oexp": [...], "sep": str, "tail": str}], "extra": [comment/blank lines positions]}"""
    if "rich" in case:
        return check_rich(case)
    stmts = case["stmts"]
    lines = []
    exp = []
    labels = set()
    for i, sm in enumerate(stmts):
        line = build_line(sm["s"], sm["p"], sm["otext"], sm["sep"], sm["tail"])
        e = expected_of(sm)
        if do_crosscheck and not crosscheck(line, e):
            return discard("generator-crosscheck")
        for pre in sm.get("pre", []):
            lines.append(pre)
            labels.add("comment-or-blank-line")
        lines.append(line)
        exp.append(e)
    for tl in case.get("trailer", []):
        lines.append(tl)
        labels.add("comment-or-blank-line")
    nt = any(is_nontrivial(sm) for sm in stmts)
    if not stmts:
        labels.add("no-statement")      # the empty document, or one of comments / blank lines only: valid, zero triples, zero errors
    if nt:
        labels.add("nontrivial")
    if len(stmts) > 1:
        labels.add("multi-line")
    eol = case.get("eol", "\n")
    if eol != "\n":
        labels.add("crlf")
    text = eol.join(lines) + (eol if case.get("final_nl", True) else "")
    chan = case.get("chan", "raw")
    if chan != "raw":
        labels.add("chan:" + chan)
    res, crash = read_doc(text, chan=chan)
    if crash is not None:
        if isinstance(crash, sut.Hang):
            if sut.confirm_loop(lambda: list(NtTriplesYielder(raw_graph=text).yield_triples())):
                return violation("reader does not terminate on %r" % text, labels, nt)
            return discard("slow")
        return violation("reader raised %s on %r (delivered as %s)" % (crash, text, chan), labels, nt)
    got, errors = res
    if got != exp or errors != 0:
        return violation("document %r (delivered as %s)\n expected %s\n got      %s\n error_triples=%s" % (text, chan, exp, got, errors), labels, nt)
    return ok(labels, nt)


def check_rich(case):
    lines, exp = [], []
    labels = {"rich"}
    for sm in case["rich"]:
        line = sm["sep"].join(sm["raw"]) + sm["tail"]
        e = (tuple(sm["exp"][0]), sm["exp"][1], tuple(sm["exp"][2]))
        if not crosscheck(line, e):
            return discard("generator-crosscheck-rich")
        lines.append(line)
        exp.append(e)
    text = "\n".join(lines) + ("\n" if case.get("final_nl", True) else "")
    labels.add("nontrivial")
    if case.get("chan", "raw") != "raw":
        labels.add("chan:" + case["chan"])
    res, crash = read_doc(text, chan=case.get("chan", "raw"))
    if crash is not None:
        if isinstance(crash, sut.Hang):
            if sut.confirm_loop(lambda: list(NtTriplesYielder(raw_graph=text).yield_triples())):
                return violation("reader does not terminate on %r" % text, labels, True)
            return discard("slow")
        return violation("reader raised %s on %r" % (crash, text), labels, True)
    got, errors = res
    if got != exp or errors != 0:
        return violation("document %r\n expected %s\n got      %s\n error_triples=%s" % (text, exp, got, errors), labels, True)
    return ok(labels, True)


# ------------------------------------------------------------------ enumeration (custom shard runner: batches of lines)

def _enum_contents(max_len):
    for L in range(0, max_len + 1):
        for toks in itertools.product(range(len(TOKENS)), repeat=L):
            yield toks


def run_shard(tier, seed, w, W, stats, deadline):
    max_len = 3 if tier == "quick" else 5
    batch = []
    n_lines = 0
    BATCH = 400
    idx = -1

    def flush():
        if not batch:
            return
        text = "\n".join(b[0] for b in batch) + "\n"
        res, crash = read_doc(text, timeout=20.0)
        good = False
        if crash is None:
            got, errors = res
            if errors == 0 and got == [b[1] for b in batch]:
                good = True
        if good:
            for line, e, sm in batch:
                stats.evaluations += 1
                stats.status["ok"] += 1
                if is_nontrivial(sm):
                    stats.labels["nontrivial"] += 1
                    stats.nontrivial.add(hash(line) & 0xffffffffffff)
                    if len(stats.samples) < 2:
                        stats.samples.append({"stmts": [sm]})
        else:
            for line, e, sm in batch:
                case = {"stmts": [sm]}
                out = check(case, do_crosscheck=False)
                if out.status == "violation" and not crosscheck(line, e):
                    out = discard("generator-crosscheck")
                stats.record(case, out)
        del batch[:]

    for toks in _enum_contents(max_len):
        idx += 1
        if idx % W != w:
            continue
        if time.time() > deadline:
            stats.skipped_wall += 1
            continue
        body = [TOKENS[t] for t in toks]
        for sfx in range(len(SUFFIXES)):
            otext = lit_text(body, sfx)
            oexp = ["lit", SUFFIXES[sfx][1]]
            for ti, tail in enumerate(TAILS):
                k = idx + sfx + ti
                sm = {"s": k % len(SUBJECTS), "p": (k // 3) % len(PREDS), "otext": otext, "oexp": oexp,
                      "sep": SEPS[(k // 2) % len(SEPS)], "tail": tail}
                line = build_line(sm["s"], sm["p"], otext, sm["sep"], tail)
                batch.append((line, expected_of(sm), sm))
        if len(batch) >= BATCH:
            flush()
        if stats.status.get("violation", 0) >= 12:
            break      # the tree is clearly broken; no point in enumerating further
    flush()
    # a sample of the enumeration is cross-checked against rdflib (generator soundness)
    if w == 0:
        import random
        rnd = random.Random(1234)
        bad = 0
        for _ in range(300):
            L = rnd.randint(0, max_len)
            body = [TOKENS[rnd.randrange(len(TOKENS))] for _ in range(L)]
            sfx = rnd.randrange(len(SUFFIXES))
            sm = {"s": rnd.randrange(3), "p": rnd.randrange(2), "otext": lit_text(body, sfx), "oexp": ["lit", SUFFIXES[sfx][1]],
                  "sep": rnd.choice(SEPS), "tail": rnd.choice(TAILS)}
            line = build_line(sm["s"], sm["p"], sm["otext"], sm["sep"], sm["tail"])
            if not crosscheck(line, expected_of(sm)):
                bad += 1
        stats.labels["enum-crosscheck-disagreements"] += bad
        if bad:
            stats.errors.append("generator and rdflib disagree on %d of 300 sampled enumerated statements" % bad)


# ------------------------------------------------------------------ Hypothesis beyond the bound

@st.composite
def stmt(draw):
    s = draw(st.integers(0, len(SUBJECTS) - 1))
    p = draw(st.integers(0, len(PREDS) - 1))
    sep = draw(st.sampled_from(SEPS + [""]))         # "" : no white space between the terms (legal N-Triples)
    tail = draw(st.sampled_from(TAILS + ["  . ", "\t.", " .\t# c", " .#c"]))
    if draw(st.integers(0, 9)) < 7:
        toks = draw(st.lists(st.integers(0, len(TOKENS) - 1), max_size=12))
        sfx = draw(st.integers(0, len(SUFFIXES) - 1))
        otext = lit_text([TOKENS[t] for t in toks], sfx)
        oexp = ["lit", SUFFIXES[sfx][1]]
    else:
        o = draw(st.sampled_from(NONLIT_OBJECTS))
        otext, oexp = o[0], list(o[1])
    sm = {"s": s, "p": p, "otext": otext, "oexp": oexp, "sep": sep, "tail": tail}
    pre = draw(st.lists(st.sampled_from(["# a comment", "", "   ", "# <http://ex.org/a> <http://ex.org/b> <http://ex.org/c> .",
                                         '#"x"@en', "  # indented comment", "\t# comment after a tab", " \t ", "#", "\t",
                                         '   # <http://ex.org/a> <http://ex.org/b> "c" .']), max_size=2))
    if pre:
        sm["pre"] = pre
    return sm


# ---- "random beyond": free text over a broad alphabet, escaped as the N-Triples grammar allows (ECHAR, UCHAR), free-form
# IRIs, blank-node labels and language tags.  Expected projection is known by construction; rdflib cross-checks.
_TEXT = st.text(alphabet=st.one_of(st.sampled_from(list(' !#$%&()*+,-./:;<=>?@[]^_`{|}~"\\\'\t\n\r')),
                                   st.characters(min_codepoint=0x30, max_codepoint=0x7a),
                                   st.sampled_from(["\u00e9", "\u65e5", "\U0001F600", "\u00a0"])), max_size=10)
_ECHAR = {"\t": "\\t", "\n": "\\n", "\r": "\\r", '"': '\\"', "\\": "\\\\", "\b": "\\b", "\f": "\\f"}


@st.composite
def rich_literal(draw):
    txt = draw(_TEXT)
    out = []
    for ch in txt:
        k = draw(st.integers(0, 9))
        if ch in _ECHAR:
            out.append(_ECHAR[ch])
        elif ch == "'" and k < 5:
            out.append("\\'")
        elif k == 0 and ord(ch) < 0x10000:
            out.append("\\u%04X" % ord(ch))
        elif k == 1:
            out.append("\\U%08X" % ord(ch))
        else:
            out.append(ch)
    body = '"' + "".join(out) + '"'
    kind = draw(st.integers(0, 3))
    if kind == 0:
        return body, ["lit", XSD_STRING]
    if kind == 1:
        tag = draw(st.sampled_from(["en", "es", "en-GB", "zh-Hant-TW", "x-a1", "de-1996"]))
        return body + "@" + tag, ["lit", LANGSTRING]
    dt = draw(st.sampled_from([XSD + "int", XSD + "string", "http://ex.org/dt#a@b", "http://ex.org/dt/x_y-z.1", "urn:dt:q", XSD + "date",
                               RDF + "HTML", "http://dbpedia.org/datatype/usDollar", "http://www.opengis.net/ont/geosparql#wktLiteral"]))
    return body + "^^<" + dt + ">", ["lit", dt]


RDF = "http://www.w3.org/1999/02/22-rdf-syntax-ns#"
_IRI_TAIL = st.text(alphabet=st.sampled_from(list("abcXYZ019-._~:/?#[]@!$&'()*+,;=%") + ["\u00e9", "\u65e5", "\u00fc"]), max_size=8)
_BN = st.from_regex(r"[A-Za-z0-9_]([A-Za-z0-9_.\-]{0,5}[A-Za-z0-9_\-])?", fullmatch=True)


@st.composite
def rich_stmt(draw):
    def node(allow_lit):
        k = draw(st.integers(0, 9))
        if allow_lit and k < 6:
            return draw(rich_literal())
        if k < 8:
            iri = "http://ex.org/" + draw(_IRI_TAIL)
            return "<" + iri + ">", ["iri", iri]
        lab = "_:" + draw(_BN)
        return lab, ["bnode", lab]
    stext, sexp = node(False)
    piri = "http://ex.org/p" + draw(_IRI_TAIL)
    otext, oexp = node(True)
    return {"raw": [stext, "<" + piri + ">", otext], "exp": [sexp, piri, oexp], "sep": draw(st.sampled_from(SEPS)),
            "tail": draw(st.sampled_from(TAILS))}


@st.composite
def cases(draw):
    chan = draw(st.sampled_from(["raw", "raw", "raw", "raw", "file", "gz", "xz"]))
    if draw(st.integers(0, 2)) == 0:
        return {"rich": draw(st.lists(rich_stmt(), min_size=1, max_size=3)), "final_nl": draw(st.booleans()), "chan": chan}
    trailer = draw(st.lists(st.sampled_from(["# a comment", "", "   ", "\t", "#", "  # indented"]), max_size=2)) if draw(st.integers(0, 3)) == 0 else []
    none = draw(st.integers(0, 11)) == 0        # a document without any statement (empty, blank lines, comments only)
    case = {"stmts": [] if none else draw(st.lists(stmt(), min_size=1, max_size=5)), "final_nl": draw(st.booleans()),
            "eol": draw(st.sampled_from(["\n", "\n", "\r\n"])), "chan": chan}
    if trailer:
        case["trailer"] = trailer
    return case


def strategy(tier):
    return cases()
