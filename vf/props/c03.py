"""C03 - in all-compliant mode every instance conforms to its extracted shape.

With all_instances_are_compliant_mode (default) and threshold 0, every node used to extract a shape conforms to that shape
under ShEx semantics; relaxed constraints use '?' only when no instance has more than one matching value, otherwise '*';
switching the mode off never changes any cardinality.
Strict domain: schema-consistent graphs x keep_less_specific=True x {allow_opt_cardinality, disable_exact_cardinality,
discard_useless_constraints_with_positive_closure, inverse_paths}^2.
Oracle: independent ShEx validator (greatest fixed point) over the parsed ShExC text + twin run with the mode off.
"""
from hypothesis import strategies as st
from .. import sut, oracle, common, refmodel, shexc, shexval, gen_graph as gg
from ..runner import ok, violation, known, discard
from ..rdfmodel import RDF_TYPE, triples_from_json, to_nt
from . import c01

PID = "C03"
RULE = ("Hypothesis: schema-consistent graphs (schema drawn first: per (class, property) literal datatypes and/or one homogeneous "
        "non-literal range; free presence/cardinality 0..3 per instance; IRI or blank-node instances) x keep_less_specific=True x 2^4 "
        "switch combinations x {all_classes_mode, target_classes}.  Oracle: (1) independent ShEx validator on every (instance, shape) "
        "pair, references followed by greatest fixed point; (2) '?' only where no instance has >1 matching value (reference "
        "profiler); (3) twin run with the mode off: 100 % constraints identical, relaxed ones carry the original cardinality.  "
        "Non-trivial: >=1 constraint relaxed to '?'/'*' and >=1 shape reference followed; distinct by SHA-1 of the case.")
ASSUMPTIONS = c01.ASSUMPTIONS + ["vf/shexval.py implements ShEx conformance for the emitted subset (EachOf of triple constraints, node kinds, datatypes, value sets, shape references)"]
BUDGET = {"quick": {"examples": 12000, "wall": 150}, "thorough": {"examples": 300000, "wall": 900}}
FLOORS = {"nontrivial": 0.12, "relaxed": 0.3, "ref-followed": 0.2}


@st.composite
def cases(draw):
    with_or = draw(st.integers(0, 2)) == 0
    mtr = with_or and draw(st.booleans())
    g = draw(gg.consistent(multi_typed_ranges=mtr))
    cfg = {"keep_less_specific": True, "all_instances_are_compliant_mode": True, "instances_report_mode": "mixed"}
    for name in ("allow_opt_cardinality", "disable_exact_cardinality", "discard_useless_constraints_with_positive_closure", "inverse_paths"):
        cfg[name] = draw(st.booleans())
    if draw(st.integers(0, 3)) == 0:
        cfg["detect_minimal_iri"] = True       # '[<stem>~] AND {...}': the stem is a node constraint every instance must satisfy
    if with_or:
        cfg["disable_or_statements"] = False        # disjunctions ('p @:A OR @:B') instead of one merged constraint
        cfg["allow_redundant_or"] = draw(st.booleans())
    # (with multi-typed ranges every class is a target: a neighbour typed only by a non-target class would count as untyped
    # next to one that has a shape - kinds mixed on one property, outside the strict domain)
    target = {"mode": "all"} if mtr else draw(common.target_spec(g, p_all=0.6))
    return {"g": g, "cfg": cfg, "target": target, "thr": 0}


def strategy(tier):
    return cases()


selftest = c01.selftest


def check(case):
    case = common.expanded(case)
    kw, triples = common.base_kwargs(case)
    cfg = case["cfg"]
    inst_prop = case["g"]["inst_prop"]
    text, crash = sut.shex(kw, acceptance_threshold=0)
    if crash is not None:
        return discard("crash:" + crash.bucket)
    try:
        doc = shexc.read(text)
    except shexc.ShExCError as e:
        # nothing conforms to a schema that is not ShEx (in the strict domain the unchanged tree always emits readable ShExC)
        return violation("the extracted schema is not readable as ShExC (%s), so no instance can be said to conform\n%s" % (e, text[:2000]), (), True)
    cdoc = oracle.canon(doc, inst_prop)
    M, sel, label_of = common.model_for(case, triples)
    if len(set(label_of.values())) != len(label_of):
        return discard("label-collision")
    labels = set()
    pairs = [(n, label_of[S]) for S in sel for n in sel[S]]
    res = shexval.validate(doc, triples, pairs)
    bad = {k: v for k, v in res.items() if v}
    relaxed = any(e["card"] in ("?", "*") for cs in cdoc.values() if not isinstance(cs, list) for e in cs.cons.values())
    refs = any(k[0] == "ref" for cs in cdoc.values() if not isinstance(cs, list) for e in cs.cons.values() for k in e["kinds"])
    if relaxed:
        labels.add("relaxed")
    if refs:
        labels.add("ref-followed")
    if any(n.startswith("_:") for S in sel for n in sel[S]):
        labels.add("bnode-instances")
    nt = relaxed and refs
    if nt:
        labels.add("nontrivial")
    if bad and case.get("outside_kf"):
        # pinned input outside the strict domain (one of the three root causes named in the property): identified by
        # this specific input, never generated
        return known(case["outside_kf"], str(sorted(bad.items())[0])[:300], labels | {"outside-strict-domain"}, nt)
    if bad and cfg.get("disable_or_statements") is False:
        kf = _or_cardinality_finding(doc, triples, sel, label_of, pairs)
        if kf:
            return known("C03-ORCARD", kf, labels | {"or-statements"}, nt)
    if bad:
        k = sorted(bad)[0]
        return violation("instance %s does not conform to %s: %s\n--- graph ---\n%s--- output ---\n%s" % (k[0], k[1], bad[k][:3], kw["raw_graph"], text), labels, nt)
    # (2) '?' admissible only if no instance has more than one matching value
    lab2S = {v: k for k, v in label_of.items()}
    for lab, cs in cdoc.items():
        if isinstance(cs, list) or lab not in lab2S:
            continue
        S = lab2S[lab]
        for key, e in cs.cons.items():
            if e["card"] == "?":
                for kind in e["kinds"]:
                    if M.max_card(S, key[0], kind) > 1:
                        return violation("%s %s printed with '?' although an instance has %d such values\n%s" % (lab, key, M.max_card(S, key[0], kind), text), labels, nt)
            if e["card"] == "?" and not cfg.get("allow_opt_cardinality", True):
                return violation("'?' printed with allow_opt_cardinality=False\n" + text, labels, nt)
    # (3) twin run with the mode off
    kw2 = dict(kw, all_instances_are_compliant_mode=False)
    t2, c2 = sut.shex(kw2, acceptance_threshold=0)
    if c2 is not None:
        return discard("crash-twin:" + c2.bucket)
    try:
        off = oracle.read_canon(t2, inst_prop)
    except shexc.ShExCError:
        return discard("unparsable-output")
    for lab, cs in cdoc.items():
        if isinstance(cs, list):
            continue
        if lab not in off:
            return violation("shape %s missing with the mode off" % lab, labels, nt)
        if set(cs.cons) != set(off[lab].cons):
            return violation("%s: constraint keys differ with the mode off: %s\n--- on ---\n%s\n--- off ---\n%s" % (lab, sorted(map(str, set(cs.cons) ^ set(off[lab].cons))), text, t2), labels, nt)
        for key, e in cs.cons.items():
            eo = off[lab].cons[key]
            if e["kinds"] != eo["kinds"]:
                return violation("%s %s: value expression differs with the mode off (%s vs %s)" % (lab, key, e["kinds"], eo["kinds"]), labels, nt)
            if e["card"] in ("?", "*"):
                # original cardinality = the first comment the mode inserted
                first = e["facts"][0] if e["facts"] else None
                orig = oracle.card_norm(first[1]) if first else None      # (facts of disjunctions keep the raw spelling)
                if orig is not None and cfg.get("disable_exact_cardinality") and orig.isdigit() and int(orig) > 1:
                    orig = "+"      # the mode-off run generalises the exact cardinality afterwards
                if orig is None or oracle.card_norm(eo["card"]) != orig:
                    return violation("%s %s: relaxed to %s, the mode-on run reports original cardinality %s, the mode-off run prints %s\n--- on ---\n%s\n--- off ---\n%s" % (lab, key, e["card"], orig, eo["card"], text, t2), labels, nt)
            elif e["card"] != eo["card"]:
                return violation("%s %s: cardinality %s with the mode on, %s with it off\n--- on ---\n%s\n--- off ---\n%s" % (lab, key, e["card"], eo["card"], text, t2), labels, nt)
    return ok(labels, nt)


def _or_cardinality_finding(doc, triples, sel, label_of, pairs):
    """C03-ORCARD (disable_or_statements=False only): a disjunction 'p @:A OR @:B' is printed with the cardinality of ONE of its
    alternatives, although an instance can have a different number of values per alternative (a neighbour that is an instance of
    A and of B counts for both, another one only for B).  Signature: some instance of the shape has, for that disjunction, a
    number of matching values outside the printed cardinality AND per-alternative match counts that are not all equal to that
    number.  The case is excused only if, with exactly those disjunctions relaxed to '*', every instance conforms."""
    members = {}
    for S, nodes in sel.items():
        members[label_of[S]] = set(nodes)
    out, inc = {}, {}
    for s_, p_, o_ in triples:
        out.setdefault(s_[1], []).append((p_, o_))
        if o_[0] != "lit":
            inc.setdefault(o_[1], []).append((p_, s_))

    def amatch(v, x):
        if v[0] == "ref":
            return x[0] != "lit" and x[1] in members.get(v[1], ())
        if v[0] == "kind":
            return x[0] != "lit" and (v[1] in ("NONLITERAL", ".") or (v[1] == "IRI") == (x[0] == "iri"))
        if v[0] == "datatype":
            return x[0] == "lit" and x[2] == v[1]
        if v[0] == "valueset":
            return x[0] != "lit" and x[1] in v[1]
        return False
    flagged = []
    for sh in doc.shapes:
        for c in sh.constraints:
            if len(c.values) < 2:
                continue
            for n in members.get(sh.label, ()):
                vals = [x for q, x in (inc.get(n, []) if c.inverse else out.get(n, [])) if q == c.pred]
                per = [sum(1 for x in vals if amatch(v, x)) for v in c.values]
                N = sum(1 for x in vals if any(amatch(v, x) for v in c.values))
                lo, hi = c.card
                if (N < lo or (hi is not None and N > hi)) and any(k != N for k in per):
                    flagged.append((sh.label, c, n, N, per))
                    break
    if not flagged:
        return None
    saved = [(c, c.card, c.card_txt) for _, c, _, _, _ in flagged]
    try:
        for c, _, _ in saved:
            c.card, c.card_txt = (0, None), "*"
        res = shexval.validate(doc, triples, pairs)
    finally:
        for c, card, txt in saved:
            c.card, c.card_txt = card, txt
    if any(v for v in res.values()):
        return None
    lab, c, n, N, per = flagged[0]
    return "%s %s%s printed with cardinality %s; instance %s has %d matching values (per alternative %s)" % (
        lab, "^" if c.inverse else "", c.pred, c.card_txt or "{1}", n, N, per)


def enumerate_cases(tier):
    """scale family: ratios within 1/n of 100 % (a tolerance instead of an exact comparison shows only on large classes)"""
    sizes = [(250, 1, 1), (10001, 1, 1)] if tier == "quick" else [(250, 1, 1), (1000, 2, 1), (10001, 1, 1), (20001, 1, 2), (10001, 10000, 1)]
    for n, missing, double in sizes:
        for opt in (True, False):
            yield {"g": {"scale": [n, missing, double]}, "target": {"mode": "all"}, "thr": 0,
                   "cfg": {"keep_less_specific": True, "all_instances_are_compliant_mode": True, "instances_report_mode": "mixed",
                           "allow_opt_cardinality": opt, "disable_exact_cardinality": False,
                           "discard_useless_constraints_with_positive_closure": True, "inverse_paths": not opt}}
