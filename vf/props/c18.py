"""C18 - results depend only on the arguments, not on output channel or call history.

Writing to a file produces byte-for-byte the text returned as a string, for outputs of any length; calling shex_graph again
on the same Shaper returns the same text; a later call honours its own acceptance_threshold and output_format; constructing a
Shaper does not alter the behaviour of other Shapers (even when the caller reuses the same namespaces dictionary).
Oracle (model-based, histories): every step of a generated call history on ONE Shaper is compared with what a FRESH Shaper
built from freshly copied arguments returns for that single call.
"""
import os
import copy
from hypothesis import strategies as st
from .. import sut, common, gen_graph as gg
from ..runner import ok, violation, known, discard
from ..rdfmodel import RDF_TYPE, RDF, to_nt, triples_from_json

PID = "C18"
RULE = ("Hypothesis histories: graph x constructor arguments x a sequence of <=3 operations from {shex_graph(ShExC|SHACL, "
        "string|file|both, threshold in {0,.5,1}), profile_graph(string|file), new Shaper built with the SAME namespaces dict / target_classes / namespaces_to_ignore objects}; "
        "graphs from a few lines up to >10 000 output lines (800 / 1 500 one-instance classes = 5 600 / 10 500 lines; the serializer flushes every 5 000 "
        "lines).  Model: a fresh Shaper with freshly copied arguments performing only that call; invariant after every step: same "
        "text (ShExC byte for byte, SHACL graph-isomorphic), file bytes == string, the caller's namespaces dict unchanged.  "
        "Non-trivial: >=2 calls differing in threshold/format/sink, or output > 5 000 lines; distinct by SHA-1 of the case.")
ASSUMPTIONS = ["rdflib.compare.isomorphic for SHACL graphs (rdflib's Turtle serialisation orders blank nodes by random ids)"]
BUDGET = {"quick": {"examples": 6400, "wall": 200}, "thorough": {"examples": 30000, "wall": 900}}
FLOORS = {"nontrivial": 0.15, "big-output": 0.01, "second-shaper": 0.1, "over-5000-lines": 0.005}


def big_graph(n_classes):
    tr = []
    for i in range(n_classes):
        tr.append([["iri", "http://ex.org/n%d" % i], RDF_TYPE, ["iri", "http://ex.org/K%d" % i]])
        tr.append([["iri", "http://ex.org/n%d" % i], "http://ex.org/p", ["lit", "a", "http://www.w3.org/2001/XMLSchema#string", ""]])
    return {"triples": tr, "classes": ["http://ex.org/K%d" % i for i in range(n_classes)], "inst_prop": RDF_TYPE}


@st.composite
def cases(draw, tier):
    size = draw(st.sampled_from(["small"] * 38 + ["big1", "big2"]))
    via_rdflib = size == "small" and draw(st.integers(0, 4)) == 0
    dmi = draw(st.integers(0, 3)) == 0
    urn = dmi and size == "small" and draw(st.booleans())     # stems that end in ':' (urn:isbn:...), recomputed by later calls
    if size == "small":
        # (an in-memory rdflib Graph can hold what the line-based readers never produce: literals with real line breaks)
        g = draw(gg.general(unicode_iris=draw(st.integers(0, 3)) == 0, quirks=draw(gg.quirk_set(one_in=4)) + (["urn_nodes"] if urn else []), bnodes=not via_rdflib,
                            lit_kinds=(gg.LIT_KINDS + ["multiline", "multiline"]) if via_rdflib else None))
    else:
        g = {"big": 800 if size == "big1" else 1500}
    cfg = {}
    for name in gg.SWITCHES:
        cfg[name] = draw(st.booleans())
    cfg["instances_report_mode"] = draw(st.sampled_from(["ratio", "mixed"]))
    if draw(st.integers(0, 2)) == 0:
        cfg["decimals"] = draw(st.sampled_from([0, 1, 2, 3]))
    if draw(st.booleans()):
        cfg["inverse_paths"] = True
    if draw(st.integers(0, 3)) == 0:
        cfg["examples_mode"] = draw(st.sampled_from(["shape", "cons", "all"]))
    if dmi:
        cfg["detect_minimal_iri"] = True
    ns = draw(st.sampled_from([None, {"http://ex.org/": "ex"}, {"http://ex.org/": "", "http://ex.org/ns/": "ns"},
                               {"http://www.w3.org/2001/XMLSchema#": "xsd", RDF: "rdf"}]))
    op = st.one_of(
        st.tuples(st.just("shex"), st.sampled_from(["ShEx", "ShEx", "Shacl"]), st.sampled_from(["string", "string", "file", "both"]),
                  # thresholds that are different numbers although nearly equal, on both sides of the frequencies 1/2 and 1/3
                  st.sampled_from([0, 0, 0, 0.5, 0.5, 1, 1, 0.5000000000001, 0.49999999999, 0.3333333333, 0.33333333334])),
        st.tuples(st.just("profile"), st.sampled_from(["string", "file", "both"])),
        st.tuples(st.just("new_shaper")),
        st.tuples(st.just("other_shaper"), st.sampled_from([1, 2, 3, 4]), st.sampled_from(["ratio", "mixed"])),
    )
    ops = [list(o) for o in draw(st.lists(op, min_size=draw(st.sampled_from([1, 2, 2, 3])) if size == "small" else 1, max_size=(3 if tier == "quick" else 5) if size == "small" else 2))]
    if size != "small":
        # the 5 000-line flush belongs to the ShExC serializer; SHACL graphs of that size make the isomorphism oracle too slow
        ops = [[o[0], "ShEx", o[2], o[3]] if o[0] == "shex" else o for o in ops if o[0] != "profile"] or [["shex", "ShEx", "file", 0]]
    if size == "small" and cfg.get("decimals", -1) > 0 and draw(st.booleans()):
        # the same call before and after an unrelated Shaper with ANOTHER precision was built and used
        first = next((o for o in ops if o[0] == "shex"), ["shex", "ShEx", "string", 0])
        ops = [list(first), ["other_shaper", (cfg["decimals"] % 4) + 1, draw(st.sampled_from(["ratio", "mixed"]))], list(first)]
    if dmi and size == "small" and draw(st.booleans()):
        # the shapes are computed again (another threshold) and again: the stored stem must not wear off
        t_a, t_b = draw(st.sampled_from([(0, 0.5), (0.5, 0), (0, 1), (1, 0.5)]))
        fmt_ = draw(st.sampled_from(["ShEx", "ShEx", "Shacl"]))
        ops = [["shex", "ShEx", "string", t_a], ["shex", fmt_, "string", t_b], ["shex", "ShEx", "string", t_a]]
    if via_rdflib and draw(st.booleans()):
        # the same call made twice, with examples: annotations are added to the cached shapes by the serializer
        cfg["examples_mode"] = draw(st.sampled_from(["cons", "all"]))
        first = next((o for o in ops if o[0] == "shex"), ["shex", "ShEx", "string", 0])
        ops = (ops + [list(first)])[-3:] if first in ops else [list(first), list(first)]
    case = {"g": g, "cfg": cfg, "ns": ns, "ops": ops}
    if via_rdflib:
        case["via_rdflib"] = True
    elif size == "small" and draw(st.integers(0, 3)) == 0:
        # the graph comes from a file; "stale": the same path held ANOTHER graph when an earlier Shaper (same arguments) read it
        case["via_file"] = draw(st.sampled_from(["plain", "stale", "stale"]))
    if draw(st.booleans()):
        case["same_path"] = True        # every call of the history writes to the same file (a later document replaces an earlier one)
    if draw(st.integers(0, 3)) == 0:
        case["stale"] = draw(st.sampled_from(["x", "stale line\n" * 400, "PREFIX : <http://stale.org/>\n:Old {\n}\n" * 2500]))   # the file exists already
    if size == "small" and draw(st.integers(0, 2)) == 0:
        case["targets"] = draw(st.lists(st.sampled_from(g["classes"]), min_size=1, max_size=len(g["classes"]), unique=True))
        # class names are accepted as full, <bracketed> or prefixed IRIs: the caller's list must come back as it was given
        case["target_spelling"] = draw(st.lists(st.integers(0, 2), min_size=len(case["targets"]), max_size=len(case["targets"])))
    if size == "small" and "targets" not in case and draw(st.integers(0, 3)) == 0:
        # shape-map shapes (they can be emptied by a threshold and must come back at a lower one)
        from . import c10
        n = draw(st.integers(1, 3))
        case["sm_items"] = [{"sel": draw(c10.selector(g)), "label": "<http://sh.org/S%d>" % (i if draw(st.integers(0, 2)) else 0),
                             "styles": draw(st.lists(st.integers(0, 1), min_size=4, max_size=4))} for i in range(n)]
        case["sm_with_all"] = draw(st.booleans())
        case["ns"] = None
    if draw(st.integers(0, 3)) == 0:
        case["ignore"] = draw(st.lists(st.sampled_from(["http://ex.org/ns/", "http://other.org/v#"]), min_size=1, max_size=2, unique=True))
    return case


def strategy(tier):
    return cases(tier)


def spelled_targets(case):
    out = []
    for c, sp in zip(case.get("targets") or [], case.get("target_spelling") or [0] * 99):
        if c.startswith("_:"):
            out.append(c)
            continue
        pref = None
        for ns_, lab in (case.get("ns") or {}).items():
            loc = c[len(ns_):]
            if c.startswith(ns_) and loc and all(ch.isalnum() or ch == "_" for ch in loc):
                pref = "%s:%s" % (lab, loc)
        out.append(pref if (sp == 2 and pref) else "<%s>" % c if sp >= 1 else c)
    return out


def make_kwargs(case, ns_obj, shared=None, graph_path=None):
    """shared: dict of argument objects the caller reuses between Shapers (lists); None = fresh copies"""
    g = case["g"]
    if "big" in g:
        g = big_graph(g["big"])
    triples = triples_from_json(g["triples"])
    if graph_path is not None:
        if not os.path.exists(graph_path):
            with open(graph_path, "w", encoding="utf-8") as f:
                f.write(to_nt(triples))
        kw = dict(graph_file_input=graph_path)
    elif case.get("via_rdflib"):
        from ..rdfmodel import to_rdflib
        kw = dict(rdflib_graph=to_rdflib(triples))        # a fresh Graph object per Shaper
    else:
        kw = dict(raw_graph=to_nt(triples))
    if case.get("sm_items"):
        from .. import selectors
        from . import c10
        kw["shape_map_raw"] = "\n".join("%s@%s" % (selectors.render(it["sel"], c10.NSD, it["styles"]), it["label"]) for it in case["sm_items"])
        kw["namespaces_dict"] = dict(c10.NSD)
        if case.get("sm_with_all"):
            kw["all_classes_mode"] = True
    elif case.get("targets"):
        kw["target_classes"] = shared["targets"] if shared else spelled_targets(case)
    else:
        kw["all_classes_mode"] = True
    if case.get("ignore"):
        kw["namespaces_to_ignore"] = shared["ignore"] if shared else list(case["ignore"])
    kw.update(case["cfg"])
    if ns_obj is not None:
        kw["namespaces_dict"] = ns_obj
    return kw


def do_call(shaper, op, d, tag, stale=None):
    """returns (string result or None, file text or None)"""
    path = os.path.join(d, "out_%s.txt" % tag)
    if stale is not None and not os.path.exists(path) and (op[2] if op[0] == "shex" else op[1]) in ("file", "both"):
        with open(path, "w", encoding="utf-8") as f:
            f.write(stale)
    if op[0] == "shex":
        _, fmt, sink, thr = op
        skw = dict(output_format=fmt, acceptance_threshold=thr)
    else:
        _, sink = op
        skw = {}
    if sink in ("string", "both"):
        skw["string_output"] = True
    if sink in ("file", "both"):
        skw["output_file"] = path
    res = shaper.shex_graph(**skw) if op[0] == "shex" else shaper.profile_graph(**skw)
    ftext = None
    if os.path.exists(path):
        with open(path, encoding="utf-8", newline="") as f:
            ftext = f.read()
    return res, ftext


def same_text(fmt, a, b):
    if a == b:
        return True
    if fmt != "Shacl" or a is None or b is None:
        return False
    import rdflib
    from rdflib.compare import isomorphic
    ga, gb = rdflib.Graph(), rdflib.Graph()
    ga.parse(data=a, format="turtle")
    gb.parse(data=b, format="turtle")
    return isomorphic(ga, gb)


def check(case):
    labels = set()
    ops = case["ops"]
    if case.get("sm_items"):
        # selectors answering blank nodes are outside the domain (rdflib re-labels them at random on every parse)
        from .. import selectors
        triples = triples_from_json(case["g"]["triples"])
        for it in case["sm_items"]:
            if any(a[0] != "iri" for a in selectors.evaluate(it["sel"], triples)):
                return discard("non-iri-answer")
    calls = [o for o in ops if o[0] not in ("new_shaper", "other_shaper")]
    nt = len({tuple(o) for o in calls}) >= 2 or "big" in case["g"]
    if "big" in case["g"]:
        labels.add("big-output")
    if any(o[0] == "new_shaper" for o in ops):
        labels.add("second-shaper")
    if any(o[0] == "other_shaper" for o in ops):
        labels.add("unrelated-shaper-in-between")
    if case.get("sm_items"):
        labels.add("shape-map")
    if case.get("via_rdflib"):
        labels.add("rdflib-graph")
    if case.get("via_file"):
        labels.add("graph-file-" + case["via_file"])
    if len(calls) >= 2:
        labels.add("repeated-calls")
    if case.get("same_path") and sum(1 for o in calls if (o[2] if o[0] == "shex" else o[1]) in ("file", "both")) >= 2:
        labels.add("file-rewritten")
    if case.get("stale"):
        labels.add("file-existed-before")
    if nt:
        labels.add("nontrivial")
    ns_shared = copy.deepcopy(case["ns"])
    ns_before = copy.deepcopy(ns_shared)
    shared = {"targets": spelled_targets(case), "ignore": list(case.get("ignore") or [])}
    shared_before = copy.deepcopy(shared)
    with sut.tmpdir() as d:
        hist_path = os.path.join(d, "graph.nt") if case.get("via_file") else None
        fresh_n = [0]

        def fresh_path():
            # the model Shaper reads the same document from a path nobody has read before
            fresh_n[0] += 1
            return os.path.join(d, "model_%d.nt" % fresh_n[0]) if case.get("via_file") else None

        def history():
            if case.get("via_file") == "stale":
                # an earlier extraction from the same path, when the file still held another graph (every second statement)
                tr_all = triples_from_json((big_graph(case["g"]["big"]) if "big" in case["g"] else case["g"])["triples"])
                with open(hist_path, "w", encoding="utf-8") as f:
                    f.write(to_nt(tr_all[::2]))
                try:
                    sut.Shaper(**make_kwargs(case, copy.deepcopy(case["ns"]), None, hist_path)).shex_graph(string_output=True)
                except Exception:
                    pass
                os.remove(hist_path)        # make_kwargs writes the real document
            # the model answers first: what a FRESH Shaper with freshly copied arguments returns for each call.  They are computed
            # before the history starts, so that no model Shaper is built or used between two calls of the history (that could put
            # back state the history had disturbed)
            expected = {}
            for i, op in enumerate(ops):
                if op[0] in ("new_shaper", "other_shaper"):
                    continue
                fresh = sut.Shaper(**make_kwargs(case, copy.deepcopy(case["ns"]), None, fresh_path()))
                expected[i], _ = do_call(fresh, [op[0]] + ([op[1], "string", op[3]] if op[0] == "shex" else ["string"]), d, "m%d" % i)
            shaper = sut.Shaper(**make_kwargs(case, ns_shared, shared, hist_path))
            for i, op in enumerate(ops):
                if op[0] == "new_shaper":
                    # another Shaper built by the same caller with the same dict object; from now on it is the one observed
                    other = sut.Shaper(**make_kwargs(case, ns_shared, shared, hist_path))
                    shaper = other
                    continue
                if op[0] == "other_shaper":
                    # an unrelated Shaper with OTHER presentation options is built and used in between; the observed one stays
                    kw_o = make_kwargs(case, copy.deepcopy(case["ns"]), None, fresh_path())
                    kw_o["decimals"], kw_o["instances_report_mode"] = op[1], op[2]
                    sut.Shaper(**kw_o).shex_graph(string_output=True, acceptance_threshold=0)
                    continue
                fmt = op[1] if op[0] == "shex" else "profile"
                exp = expected[i]
                try:
                    got, gfile = do_call(shaper, op, d, "h" if case.get("same_path") else "h%d" % i, case.get("stale"))
                except sut.Timeout:
                    raise
                except Exception as e:
                    c = sut.Crash(e)
                    return "step %d %s raises %s: %s although a fresh Shaper completes the same call\n%s" % (i, op, c.bucket, c.msg, c.tb[-800:])
                sink = op[2] if op[0] == "shex" else op[1]
                if sink in ("string", "both") and not same_text(fmt, got, exp):
                    return "step %d %s: text differs from what a fresh Shaper returns for the same call\n--- history ---\n%s\n--- fresh ---\n%s" % (i, op, _clip(got), _clip(exp))
                if sink in ("file", "both"):
                    if gfile is None:
                        return "step %d %s: no output file written" % (i, op)
                    if not same_text(fmt, gfile, exp):
                        return "step %d %s: file content differs from the text a fresh Shaper returns as string\n--- file ---\n%s\n--- string ---\n%s" % (i, op, _clip(gfile), _clip(exp))
                    if sink == "both" and not same_text(fmt, gfile, got):
                        return "step %d %s: file and returned string differ" % (i, op)
                if exp is not None and exp.count("\n") > 5000:
                    labels.add("over-5000-lines")
            return None
        res, crash = sut.guarded(history, 120)
    if crash is not None:
        if isinstance(crash, sut.Hang):
            return discard("slow")
        return discard("crash:" + crash.bucket)
    if res is None and ns_before is not None and ns_shared != ns_before:
        res = "the caller's namespaces dictionary was modified: %s -> %s" % (ns_before, ns_shared)
    if res is None and shared != shared_before:
        res = "an argument list of the caller was modified: %s -> %s" % (shared_before, shared)
    if res is not None:
        return violation(res, labels, nt)
    return ok(labels, nt)


def _clip(t):
    if t is None:
        return "None"
    return t if len(t) < 2500 else t[:1200] + "\n...\n" + t[-1200:]
