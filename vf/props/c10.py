"""C10 - shapes are computed from exactly the nodes the user selected.

target_classes / file_target_classes / all_classes_mode: the subjects linked to the class by the configured instantiation
property (class names as full, <bracketed> or prefixed IRIs); shape maps (fixed or JSON syntax): the single node, the nodes
matching a {FOCUS p o} / {s p FOCUS} pattern with '_' wildcards and 'a', or the answers of the SPARQL selector; both together
when all_classes_mode is combined with a shape map.  With a non-default instantiation property rdf:type is ordinary.
Oracle: vf/selectors.py evaluates each selector directly on the abstract triples -> expected selection; labels, instance
counts and the full C01/C02 recomputation restricted to that selection must hold.
"""
import os
import json
from hypothesis import strategies as st
from .. import sut, oracle, common, refmodel, selectors, gen_graph as gg
from ..runner import ok, violation, known, discard
from ..rdfmodel import RDF_TYPE, triples_from_json, to_nt
from . import c01

PID = "C10"
RULE = ("Hypothesis: general graphs x {class targets: every drawn subset, each class spelled full / <bracketed> / prefixed, given as "
        "list or file, or all_classes_mode; instantiation property rdf:type / custom / P31 (spelled full or prefixed)} or {shape maps "
        "from a grammar: node (<IRI> / prefixed), {FOCUS p o}, {s p FOCUS} with '_', <IRI>, prefixed, 'a', SPARQL select (1-2 triple "
        "patterns, optional DISTINCT); labels <IRI> / prefixed; fixed and JSON syntax; raw or file; optionally with all_classes_mode}.  "
        "Oracle: direct evaluation of the selectors on the abstract triples, then the reference profiler restricted to that selection "
        "(labels, instance counts, every figure, key sets).  Non-trivial: the selection is a proper non-empty subset of the typed nodes, "
        "or a selector with a wildcard / prefixed name / non-default instantiation property; distinct by SHA-1 of the case.")
ASSUMPTIONS = c01.ASSUMPTIONS + ["vf/selectors.py implements the selector semantics stated in the property (BGP join, set of distinct answers)"]
BUDGET = {"quick": {"examples": 10000, "wall": 180}, "thorough": {"examples": 150000, "wall": 900}}
FLOORS = {"nontrivial": 0.3, "mode:sm": 0.25, "mode:classes": 0.25, "sel:focus": 0.1, "sel:sparql": 0.08, "sel:node": 0.08}
KNOWN = ("C01-NONLIT", "C01-NONLIT-KLS", "C02-MIXEDKIND", "C02-GONEREF")
NSD = {"http://ex.org/": "ex", "http://ex.org/ns/": "ns-1", "http://other.org/v#": "v.x", "https://data.example/": "d",
       "http://www.wikidata.org/prop/direct/": "wdt", "http://sh.org/": "sho"}
LABEL_NS = "http://sh.org/"


def spell(iri, style):
    if style == 0:
        return iri
    if style == 1:
        return "<%s>" % iri
    for ns, p in NSD.items():
        if iri.startswith(ns) and "/" not in iri[len(ns):] and "#" not in iri[len(ns):]:
            return "%s:%s" % (p, iri[len(ns):])
    return iri


@st.composite
def selector(draw, g):
    triples = g["triples"]
    subj = sorted({t[0][1] for t in triples if t[0][0] == "iri"})
    preds = sorted({t[1] for t in triples})
    iri_objs = sorted({t[2][1] for t in triples if t[2][0] == "iri" and "@" not in t[2][1]})    # one '@' per shape-map line (documented)
    kind = draw(st.sampled_from(["node", "focus", "focus", "sparql"]))
    if kind == "node" or not preds:
        return {"kind": "node", "iri": draw(st.sampled_from(subj or ["http://ex.org/n0"]))}
    if kind == "focus":
        p = draw(st.sampled_from(preds))
        pos = draw(st.sampled_from(["s", "s", "o"]))
        pool = (iri_objs if pos == "s" else subj) or ["http://ex.org/n0"]
        other = draw(st.one_of(st.just("_"), st.sampled_from(pool)))
        return {"kind": "focus", "pos": pos, "p": "a" if (p == RDF_TYPE and draw(st.booleans())) else p, "other": other}
    p1 = draw(st.sampled_from(preds))
    pats = [draw(st.sampled_from([["?v", p1, "?x"], ["?v", p1, "?x"], ["?x", p1, "?v"]]))]
    if pats[0][1] == RDF_TYPE and draw(st.booleans()):
        pats[0][1] = "a"
    if iri_objs and draw(st.booleans()):
        p2 = draw(st.sampled_from(preds))
        pats.append(["?v", p2, draw(st.one_of(st.just("?y"), st.sampled_from(iri_objs)))])
    lit_objs = sorted({(t[1], t[2][1]) for t in triples if t[2][0] == "lit" and not t[2][3] and t[2][2].endswith("#string")
                       and t[2][1] and all(ch.isalnum() or ch == " " for ch in t[2][1])})
    if lit_objs and draw(st.integers(0, 2)) == 0:
        # a pattern with a string literal (blanks inside it are part of the value: 'a  b' is not 'a b')
        p3, lex = draw(st.sampled_from(lit_objs))
        pats.append(["?v", p3, '"%s"' % lex])
    return {"kind": "sparql", "distinct": draw(st.booleans()), "patterns": pats, "layout": draw(st.sampled_from([0, 0, 0, 1, 2, 3, 4, 5, 6])),
            "var": draw(st.sampled_from(["v", "v", "v", "Person", "V", "node_1", "s", "focusNode"]))}


@st.composite
def cases(draw):
    mode = draw(st.sampled_from(["classes", "sm"]))
    if mode == "classes":
        odd = draw(st.integers(0, 2)) == 0
        g = draw(gg.general(inst_props=(RDF_TYPE, RDF_TYPE, "http://ex.org/isA", gg.INST_PROPS[2]), class_typing=odd, iri_like_literals=odd,
                            quirks=draw(gg.quirk_set(one_in=4))))
        cfg = draw(gg.switches())
        cfg["instances_report_mode"] = "mixed"
        target = draw(common.target_spec(g, p_all=0.25))
        case = {"mode": mode, "g": g, "cfg": cfg, "target": target, "thr": draw(st.sampled_from([0, 0, 0.5, 1 / 3, 1]))}
        if target["mode"] == "classes":
            case["spelling"] = draw(st.lists(st.integers(0, 2), min_size=len(target["classes"]), max_size=len(target["classes"])))
            case["via_file"] = draw(st.booleans())
        case["ip_prefixed"] = draw(st.booleans())
        if draw(st.integers(0, 3)) == 0:
            # the selection is read from the full graph, also when the namespace of the instantiation property is ignored
            case["ignore"] = draw(st.lists(st.sampled_from(IGNORABLE), min_size=1, max_size=2, unique=True))
        case["chan"] = draw(st.sampled_from(["raw", "raw", "raw", "file", "tsv", "turtle_iter", "rdflib"]))
        return case
    # (blank nodes may be the subjects / values of the selected IRI nodes; a selector that answers a blank node is outside the domain)
    g = draw(gg.general(bnodes=draw(st.integers(0, 2)) == 0, inst_props=(RDF_TYPE, RDF_TYPE, "http://ex.org/isA"), colon_locals=draw(st.integers(0, 2)) == 0,
                        quirks=draw(gg.quirk_set(allowed=("odd_schemes", "odd_schemes", "ns_iris", "hash_props", "shared_locals", "class_typing"), one_in=3))))
    cfg = draw(gg.switches())
    cfg["instances_report_mode"] = "mixed"
    n = draw(st.integers(1, 3))
    items = []
    for i in range(n):
        sel = draw(selector(g))
        lab = {"form": draw(st.sampled_from(["full", "full", "prefixed"])), "name": "S%d" % (i if draw(st.integers(0, 3)) else 0)}
        if draw(st.integers(0, 5)) == 0:
            # the label is the IRI of a class of the graph (in mixed mode the class has a shape of its own, labelled in the shapes namespace)
            lab = {"form": "class", "name": draw(st.sampled_from(g["classes"]))}
        items.append({"sel": sel, "label": lab, "styles": draw(st.lists(st.integers(0, 1), min_size=4, max_size=4))})
    return {"mode": mode, "g": g, "cfg": cfg, "items": items, "syntax": draw(st.sampled_from(["fsm", "fsm", "json"])),
            "via_file": draw(st.booleans()), "with_all_classes": draw(st.integers(0, 3)) == 0,
            "thr": draw(st.sampled_from([0, 0, 0.5, 1 / 3, 1]))}


IGNORABLE = ["http://www.w3.org/1999/02/22-rdf-syntax-ns#", "http://ex.org/", "http://ex.org/ns/", "http://www.wikidata.org/prop/direct/"]


def strategy(tier):
    return cases()


selftest = c01.selftest


def label_text(lab):
    if lab["form"] == "class":
        return "<%s>" % lab["name"]
    return "<%s%s>" % (LABEL_NS, lab["name"]) if lab["form"] == "full" else "ex:%s" % lab["name"]


def run_and_compare(kw, triples, sel, label_of, case, labels, nt, extra="", own=None):
    cfg = case["cfg"]
    inst_prop = case["g"]["inst_prop"]
    thr = case["thr"]
    text, crash = sut.shex(kw, acceptance_threshold=thr)
    if crash is not None:
        return discard("crash:" + crash.bucket)
    try:
        cdoc = oracle.read_canon(text, inst_prop)
    except oracle.shexc.ShExCError:
        return discard("unparsable-output")
    twin = None
    if cfg.get("disable_exact_cardinality"):
        t2, c2 = sut.shex(dict(kw, disable_exact_cardinality=False), acceptance_threshold=thr)
        if c2 is None:
            try:
                twin = oracle.read_canon(t2, inst_prop)
            except oracle.shexc.ShExCError:
                twin = None
    # prefixed labels may be printed in the shapes namespace (today) or as their expansion: accept either
    lo = {}
    for k, v in label_of.items():
        if isinstance(v, (list, tuple)):
            lo[k] = next((c for c in v if c in cdoc), v[0])
        else:
            lo[k] = v
    if len(set(lo.values())) != len(lo):
        return discard("label-collision")
    if case.get("ignore"):
        from .c16 import direct_child
        triples = [t for t in triples if not direct_child(t[1], case["ignore"])]
    M = refmodel.Model(triples, sel, lo, inst_prop, cfg.get("inverse_paths", False))
    finds = oracle.compare(cdoc, M, lo, thr, cfg, twin=twin)
    if own is not None:
        finds = [f for f in finds if f.cat in own]
    bad = [f for f in finds if f.sig not in KNOWN]
    if bad:
        return violation("; ".join(map(repr, bad[:3])) + "\n" + extra + "\nexpected selection: %s\n--- output ---\n%s" % (sel, text[:3000]), labels, nt)
    if finds:
        return known(finds[0].sig, repr(finds[0]), labels, nt)
    return ok(labels, nt)


def check(case, own=None):
    g = case["g"]
    triples = triples_from_json(g["triples"])
    inst_prop = g["inst_prop"]
    cfg = case["cfg"]
    labels = {"mode:" + case["mode"]}
    kw = dict(raw_graph=to_nt(triples), namespaces_dict=dict(NSD))
    kw.update(cfg)
    kw["instantiation_property"] = spell(inst_prop, 2) if case.get("ip_prefixed") else inst_prop
    typed_all = refmodel.select_by_classes(triples, inst_prop)
    typed_nodes = {n for v in typed_all.values() for n in v}
    with sut.tmpdir() as tmp:
        if case["mode"] == "classes":
            tgt = case["target"]
            if tgt["mode"] == "all":
                kw["all_classes_mode"] = True
                sel = typed_all
                labels.add("all-classes")
            else:
                spelled = [spell(c, s) for c, s in zip(tgt["classes"], case["spelling"])]
                if case.get("via_file"):
                    path = os.path.join(tmp, "targets.txt")
                    with open(path, "w") as f:
                        f.write("\n".join(spelled) + "\n")
                    kw["file_target_classes"] = path
                    labels.add("targets-from-file")
                else:
                    kw["target_classes"] = spelled
                for s_ in set(case["spelling"]):
                    labels.add("spelling:%d" % s_)
                sel = refmodel.select_by_classes(triples, inst_prop, set(tgt["classes"]))
            label_of = {c: refmodel.class_label(c) for c in sel}
            chosen = {n for v in sel.values() for n in v}
            nt = (bool(chosen) and chosen < typed_nodes) or inst_prop != RDF_TYPE or 2 in case.get("spelling", [])
            if inst_prop != RDF_TYPE:
                labels.add("custom-instantiation-property")
                if any(p == RDF_TYPE for s, p, o in triples):
                    labels.add("rdf-type-as-ordinary-property")
            if nt:
                labels.add("nontrivial")
            if case.get("ignore"):
                kw["namespaces_to_ignore"] = list(case["ignore"])
                labels.add("namespaces-ignored")
                if any(inst_prop.startswith(n) for n in case["ignore"]):
                    labels.add("instantiation-namespace-ignored")
            if case.get("chan", "raw") != "raw":
                kw = common.deliver(kw, triples, case["chan"], tmp)
                labels.add("chan:" + case["chan"])
            return run_and_compare(kw, triples, sel, label_of, case, labels, nt, own=own)
        # ---- shape map
        sel = {}
        label_of = {}
        lines = []
        jitems = []
        nt = False
        for it in case["items"]:
            ans = selectors.evaluate(it["sel"], triples)
            if any(a[0] != "iri" for a in ans):
                return discard("non-iri-answer")
            key = "sm:" + it["label"]["form"] + ":" + it["label"]["name"]
            lst = sel.setdefault(key, [])
            for a in ans:
                if a[1] not in lst:
                    lst.append(a[1])
            if len(ans) != len({a[1] for a in ans}):
                labels.add("selector-returns-duplicates")
            nm = it["label"]["name"]
            label_of[key] = nm if it["label"]["form"] == "class" else \
                LABEL_NS + nm if it["label"]["form"] == "full" else (refmodel.SHAPES_NS + nm, "http://ex.org/" + nm)
            text = selectors.render(it["sel"], NSD, it["styles"], multiline_ok=case["syntax"] == "json")
            labels.add("sel:" + it["sel"]["kind"])
            if "_" in (it["sel"].get("other"),) or ":" in text.split("{")[-1].split("<")[0] or it["sel"]["kind"] == "sparql":
                nt = True
            lines.append("%s@%s" % (text, label_text(it["label"])))
            jitems.append({"nodeSelector": text, "shapeLabel": label_text(it["label"])})
        if any(len(v) == 0 for v in sel.values()):
            labels.add("empty-selection")
        chosen = {n for v in sel.values() for n in v}
        if chosen and chosen < typed_nodes:
            nt = True
        sm_text = "\n".join(lines) if case["syntax"] == "fsm" else json.dumps(jitems)
        if case["syntax"] == "json":
            kw["shape_map_format"] = "json"
            labels.add("json-syntax")
        if case.get("via_file"):
            path = os.path.join(tmp, "map.sm")
            with open(path, "w") as f:
                f.write(sm_text)
            kw["shape_map_file"] = path
        else:
            kw["shape_map_raw"] = sm_text
        if case.get("with_all_classes"):
            kw["all_classes_mode"] = True
            labels.add("all-classes+shape-map")
            for c, nodes in typed_all.items():
                sel[c] = list(nodes)
                label_of[c] = refmodel.class_label(c)
        if nt:
            labels.add("nontrivial")
        return run_and_compare(kw, triples, sel, label_of, case, labels, nt, extra="shape map: %s" % sm_text, own=own)
