"""C16 - restriction options equal restricting the input.

instances_cap=k: every shape is computed from exactly the first min(k,|class|) instances of its class in document order
(counts and figures exact for that subset; a cap not smaller than every class changes nothing).
namespaces_to_ignore=N: same shapes as deleting every triple whose predicate is a direct child of a namespace in N,
while class membership is still read from the full graph.
Oracle: reference profiler on the restricted selection / restricted triples, plus a differential run on the restricted
document (instances_file_input = full graph).
"""
import os
from hypothesis import strategies as st
from .. import sut, oracle, common, refmodel, gen_graph as gg
from ..runner import ok, violation, known, discard
from ..rdfmodel import RDF_TYPE, RDF, to_nt
from . import c01

PID = "C16"
RULE = ("Hypothesis: general graphs x {instances_cap in 1..max class size+1 with target_classes or all_classes_mode | "
        "namespaces_to_ignore subsets of {http://ex.org/, http://ex.org/ns/, http://other.org/v#, rdf:} (nested namespaces, "
        "predicates one level deeper)} x switches x threshold.  Oracle cap: reference profiler on the first min(k,|C|) instances "
        "per class in document order (all counts, figures, keys), and text equality with the uncapped run when k >= every class.  "
        "Oracle namespaces: reference profiler on the filtered triples with membership from the full graph, and canonical equality "
        "with a run on the filtered document whose instances come from the full graph.  Non-trivial: cap below some class size, "
        "or >=1 ignored and >=1 kept predicate; distinct by SHA-1 of the case.")
ASSUMPTIONS = c01.ASSUMPTIONS
BUDGET = {"quick": {"examples": 12000, "wall": 150}, "thorough": {"examples": 150000, "wall": 900}}
FLOORS = {"nontrivial": 0.2, "mode:cap": 0.2, "mode:ns": 0.15, "differential-compared": 0.1, "cap-bites": 0.1}
KNOWN = ("C01-NONLIT", "C01-NONLIT-KLS", "C02-MIXEDKIND", "C02-GONEREF")
NS_CHOICES = ["http://ex.org/", "http://ex.org/ns/", "http://other.org/v#", RDF, "http://ex.org/n", "http://nowhere.org/",
              "http://ex.org/p", "http://ex.org/ns/p", "http://ex.org/ns", "http://www.w3.org/1999/02/22-rdf-syntax-ns#ty",
              "http://ex.org/voc#", "http://ex.org/ns/voc#"]


@st.composite
def cases(draw):
    g = draw(gg.general(inst_props=(RDF_TYPE, RDF_TYPE, RDF_TYPE, "http://ex.org/isA"), iri_like_literals=draw(st.integers(0, 3)) == 0, hash_props=draw(st.booleans()), bnode_classes=True, quirks=draw(gg.quirk_set(one_in=4))))
    cfg = draw(gg.switches())
    cfg["instances_report_mode"] = "mixed"
    target = draw(common.target_spec(g))
    thr = draw(st.sampled_from([0, 0, 0, 0.5, 1 / 3, 2 / 3, 1]))
    mode = draw(st.sampled_from(["cap", "ns"]))
    case = {"g": g, "cfg": cfg, "target": target, "thr": thr, "mode": mode}
    if mode == "cap":
        sel = refmodel.select_by_classes([(tuple(s), p, tuple(o)) for s, p, o in g["triples"]], g["inst_prop"])
        mx = max([len(v) for v in sel.values()] or [1])
        case["cap"] = draw(st.integers(1, mx + 1))
    else:
        case["ignore"] = draw(st.lists(st.sampled_from(NS_CHOICES), min_size=1, max_size=3, unique=True))
    # the restriction options are applied behind the reader: they must hold whatever channel delivers the document
    # (cap: only readers that keep the document order; namespaces: also an in-memory rdflib Graph)
    # (an rdflib Graph names a blank-node class 'c0', the line-based readers '_:c0': the shape label differs by channel, which is
    # not this property's business - blank-node classes stay on the line-based channels)
    has_bclass = any(c.startswith("_:") for c in g["classes"])
    case["chan"] = draw(st.sampled_from(common.LINE_CHANNELS + (["rdflib", "rdflib"] if (mode == "ns" and not has_bclass) else [])))
    if mode == "cap" and draw(st.integers(0, 3)) == 0:
        dd = draw(common.dups(g, type_only=True))
        if dd and not common.restated_values(dict(case, dups=dd)):
            case["dups"] = dd         # the document re-states typing triples: still the same graph, the same first k instances
    return case


def strategy(tier):
    return cases()


selftest = c01.selftest


def direct_child(pred, namespaces):
    for n in namespaces:
        if pred.startswith(n):
            rest = pred[len(n):]
            if "/" not in rest and "#" not in rest:
                return True
    return False


def judge(finds, labels, nt, text):
    bad = [f for f in finds if f.sig not in KNOWN]
    if bad:
        return violation("; ".join(map(repr, bad[:3])) + "\n--- output ---\n" + text[:3000], labels, nt)
    if finds:
        return known(finds[0].sig, repr(finds[0]), labels, nt)
    return None


def check(case):
    with sut.tmpdir() as chan_dir:
        return _check(case, chan_dir)


def _check(case, chan_dir):
    kw, triples = common.base_kwargs(case)
    chan = case.get("chan", "raw")
    if chan != "raw":
        kw = common.deliver(kw, common.doc_triples(case, triples), chan, chan_dir)
    if case.get("dups"):
        labels_extra = {"restated-typing-statements"}
    else:
        labels_extra = set()
    cfg = case["cfg"]
    inst_prop = case["g"]["inst_prop"]
    thr = case["thr"]
    labels = {"mode:" + case["mode"], "chan:" + chan} | labels_extra
    if case["mode"] == "cap":
        k = case["cap"]
        kw_cap = dict(kw, instances_cap=k)
        text, crash = sut.shex(kw_cap, acceptance_threshold=thr)
        if crash is not None:
            return discard("crash:" + crash.bucket)
        try:
            cdoc = oracle.read_canon(text, inst_prop)
        except oracle.shexc.ShExCError:
            return discard("unparsable-output")
        # document order = order of the statements of the document (re-stated typing triples included)
        doc_order = common.doc_triples(case, triples)
        full = common.selection(case, doc_order)
        sel = common.selection(case, doc_order, cap=k)
        label_of = common.labels_for(sel)
        if len(set(label_of.values())) != len(label_of):
            return discard("label-collision")
        M = refmodel.Model(triples, sel, label_of, inst_prop, cfg.get("inverse_paths", False))
        twin = None
        if cfg.get("disable_exact_cardinality"):
            t2, c2 = sut.shex(dict(kw_cap, disable_exact_cardinality=False), acceptance_threshold=thr)
            if c2 is None:
                try:
                    twin = oracle.read_canon(t2, inst_prop)
                except oracle.shexc.ShExCError:
                    twin = None
        finds = oracle.compare(cdoc, M, label_of, thr, cfg, twin=twin)
        nt = any(len(full[c]) > k for c in full)
        if nt:
            labels.add("nontrivial")
            labels.add("cap-bites")
        if all(len(full[c]) <= k for c in full):
            labels.add("cap-not-smaller-than-any-class")
            t0, c0 = sut.shex(kw, acceptance_threshold=thr)
            if c0 is None and t0 != text:
                return violation("cap %d >= every class size but the output differs from the uncapped run\n--- capped ---\n%s\n--- uncapped ---\n%s" % (k, text, t0), labels, True)
        r = judge(finds, labels, nt, "cap=%d\n%s" % (k, text))
        return r if r is not None else ok(labels, nt)
    # ---- namespaces_to_ignore
    ign = case["ignore"]
    kw_ns = dict(kw, namespaces_to_ignore=list(ign))
    text, crash = sut.shex(kw_ns, acceptance_threshold=thr)
    if crash is not None:
        return discard("crash:" + crash.bucket)
    try:
        cdoc = oracle.read_canon(text, inst_prop)
    except oracle.shexc.ShExCError:
        return discard("unparsable-output")
    kept = [t for t in triples if not direct_child(t[1], ign)]
    sel = common.selection(case, triples)
    label_of = common.labels_for(sel)
    if len(set(label_of.values())) != len(label_of):
        return discard("label-collision")
    M = refmodel.Model(kept, sel, label_of, inst_prop, cfg.get("inverse_paths", False))
    twin = None
    if cfg.get("disable_exact_cardinality"):
        t2, c2 = sut.shex(dict(kw_ns, disable_exact_cardinality=False), acceptance_threshold=thr)
        if c2 is None:
            try:
                twin = oracle.read_canon(t2, inst_prop)
            except oracle.shexc.ShExCError:
                twin = None
    finds = oracle.compare(cdoc, M, label_of, thr, cfg, twin=twin)
    # shapes emptied by the filter are removed (remove_empty_shapes default): a missing shape with no expected keys is fine
    preds = {t[1] for t in triples}
    dropped = {p for p in preds if direct_child(p, ign)}
    nt = bool(dropped) and bool(preds - dropped)
    if nt:
        labels.add("nontrivial")
    if any(p.startswith(n) and not direct_child(p, [n]) for p in preds for n in ign):
        labels.add("deeper-predicate-kept")
    if inst_prop in dropped:
        labels.add("instantiation-property-ignored")
    r = judge(finds, labels, nt, "ignore=%s\n%s" % (ign, text))
    if r is not None and r.status == "violation":
        return r
    if chan == "rdflib":
        # an rdflib store delivers the triples in its own order: the differential run below (files, document order) could differ
        # in tie-breaks, so this channel is judged by the reference profiler only
        return r if r is not None else ok(labels, nt)
    # differential: run on the filtered document, membership from the full graph
    with sut.tmpdir() as d:
        path = os.path.join(d, "full.nt")
        with open(path, "w", encoding="utf-8") as f:
            f.write(to_nt(triples))
        path2 = os.path.join(d, "filtered.nt")
        with open(path2, "w", encoding="utf-8") as f:
            f.write(to_nt(kept))
        kw_f = dict(kw, graph_file_input=path2, instances_file_input=path)
        for k_ in ("raw_graph", "input_format", "graph_list_of_files_input", "compression_mode"):
            kw_f.pop(k_, None)
        t3, c3 = sut.shex(kw_f, acceptance_threshold=thr)
    if c3 is not None:
        labels.add("differential-run-crashed")
    else:
        try:
            c3doc = oracle.read_canon(t3, inst_prop)
        except oracle.shexc.ShExCError:
            c3doc = None
        if c3doc is not None:
            def view(cd):
                return {lab: (cs.n, {kk: (e["kinds"], e["card"], str(e["figure"]), sorted(map(str, e["facts"]))) for kk, e in cs.cons.items()})
                        for lab, cs in cd.items() if lab != "__dup_labels__"}
            if view(cdoc) != view(c3doc):
                return violation("namespaces_to_ignore=%s differs from the run on the filtered document\n--- option ---\n%s\n--- filtered input ---\n%s" % (ign, text, t3), labels, nt)
            labels.add("differential-compared")
    return r if r is not None else ok(labels, nt)
