"""C08 - the extracted shapes do not depend on how the graph is delivered.

The same RDF graph yields the same shapes (labels, constraints, cardinalities, counts and comments up to prefix choice and order
among equally frequent constraints) whether it is supplied as N-Triples, TSV, Turtle (standard or streaming reader), RDF/XML,
JSON-LD, N3, an in-memory rdflib Graph, a raw string, one file, several files, a URL, or gz/xz/zip-compressed files.
Oracle: differential - canonical document of each channel vs the canonical document of the reference channel (raw N-Triples);
under a frequency tie (channels deliver triples in different orders) the comparison falls back exactly as in C09.
"""
import os
import gzip
import lzma
import zipfile
from hypothesis import strategies as st
from .. import sut, oracle, common, refmodel, gen_graph as gg
from ..runner import ok, violation, known, discard
from ..rdfmodel import RDF_TYPE, XSD_STRING, LANGSTRING, to_nt, to_tsv, to_simple_turtle, to_rdflib, triples_from_json
from . import c01, c09

PID = "C08"
FORMATS = ["nt", "tsv_spo", "turtle", "turtle_iter", "xml", "json-ld", "n3"]
RULE = ("Hypothesis: general graphs (IRI instances; blank nodes only for channels that keep labels stable) with plain/typed/"
        "language-tagged literals whose contents include '@', '%', quotes and '^^' x 6 switches x threshold; per graph 4 drawn delivery "
        "channels out of: format {nt, tsv_spo, turtle, turtle_iter, xml, json-ld, n3} x {raw string, file, list of 1-4 files, file:// "
        "URL, list of URLs, rdflib Graph object} x compression {none, gz, xz, zip with 1-3 members, list of zips} x a drawn partition "
        "of the triples x prefixes declared by the document (incl. '' and prefixes that clash with the user's namespaces_dict).  Oracle: canonical document == canonical document of the raw N-Triples run (C09 comparison incl. tie "
        "detector).  An evaluation is one graph with all its channels.  Non-trivial: a channel with >=2 files or compression or a "
        "non-NT syntax on a graph with a language-tagged or typed literal; distinct by SHA-1 of the case.")
ASSUMPTIONS = c01.ASSUMPTIONS + ["rdflib 6.0.2 serialisers (xml, json-ld) produce the documents for those syntaxes", "URL channels use file:// URLs (no network)"]
BUDGET = {"quick": {"examples": 4000, "wall": 200}, "thorough": {"examples": 50000, "wall": 900}}
FLOORS = {"nontrivial": 0.3, "comp": 0.2, "multi-file": 0.15, "fmt:xml": 0.05, "fmt:json-ld": 0.05, "fmt:turtle_iter": 0.05}
SPECIAL_LEX = ['a@b', '50%', 'say "hi"@home', 'x^^y', "it's", "a # b", 'q"', 'caf\u00e9', '\u65e5\u672c \u00fc', 'a\\b', 'line\u2028sep', 'next\u0085line', 'para\u2029graph']
STABLE_BNODE = {("nt", "raw"), ("nt", "file"), ("nt", "files"), ("tsv_spo", "raw"), ("tsv_spo", "file"), ("tsv_spo", "files"),
                ("turtle_iter", "raw"), ("turtle_iter", "file"), ("turtle_iter", "files"), ("rdflib", "rdflib")}


@st.composite
def channel(draw, has_bnodes):
    fmt = draw(st.sampled_from(FORMATS))
    how = draw(st.sampled_from(["raw", "file", "file", "files", "files", "url", "urls", "rdflib"]))
    if how == "rdflib":
        fmt = "rdflib"
    comp = None
    if how in ("file", "files"):
        comp = draw(st.sampled_from([None, None, "gz", "xz", "zip"]))
    if how in ("url", "urls") and fmt in ("tsv_spo", "turtle_iter", "nt"):
        fmt = draw(st.sampled_from(["turtle", "xml", "n3", "json-ld", "nt"]))
    if has_bnodes and (fmt, how) not in STABLE_BNODE:
        fmt, how, comp = draw(st.sampled_from([("nt", "files", "gz"), ("tsv_spo", "file", None), ("turtle_iter", "files", "zip"),
                                               ("rdflib", "rdflib", None), ("nt", "file", "xz"), ("tsv_spo", "files", "zip"),
                                               ("turtle_iter", "raw", None)]))
    parts = draw(st.integers(1, 4)) if how in ("files", "urls") or comp == "zip" else 1
    assign = draw(st.lists(st.integers(0, 3), min_size=1, max_size=12))
    ch = {"fmt": fmt, "how": how, "comp": comp, "parts": parts, "assign": assign, "zips": draw(st.integers(1, 2)),
          "pfx": draw(st.integers(0, 63))}
    if how == "files" and comp != "zip" and fmt in ("nt", "tsv_spo", "turtle", "turtle_iter", "n3") and draw(st.integers(0, 2)) == 0:
        # one of the listed files is empty (an export split into parts, one part without content): an empty document of these
        # syntaxes is a valid document without triples, wherever it stands in the list
        ch["empty_at"] = draw(st.integers(0, 4))
    return ch


@st.composite
def cases(draw):
    bn = draw(st.integers(0, 3)) == 0
    g = draw(gg.general(bnodes=bn, max_stmts=24, quirks=draw(gg.quirk_set(one_in=3)) + (["shared_locals"] if draw(st.booleans()) else [])))
    # sprinkle literals whose content looks like markup
    extra = draw(st.lists(st.tuples(st.integers(0, 5), st.integers(0, 2), st.sampled_from(SPECIAL_LEX), st.sampled_from(["", "", "en"])), max_size=3))
    subs = [t[0] for t in g["triples"] if t[1] == RDF_TYPE] or [t[0] for t in g["triples"]]
    for si, pi, lex, lang in extra:
        s = subs[si % len(subs)]
        tr = [s, gg.prop_iri(pi), ["lit", lex, LANGSTRING if lang else XSD_STRING, lang]]
        if tr not in g["triples"]:
            g["triples"].append(tr)
    cfg = draw(gg.switches())
    cfg["instances_report_mode"] = "mixed"
    has_b = any(t[0][0] == "bnode" or t[2][0] == "bnode" for t in g["triples"])
    chans = draw(st.lists(channel(has_b), min_size=4, max_size=4))
    nsd = draw(st.sampled_from(NS_DICTS))
    if nsd is not None:
        cfg["namespaces_dict"] = nsd
    if draw(st.integers(0, 4)) == 0:
        # a restriction option must restrict every channel alike (the in-memory Graph and the parsed files go through the same filter)
        cfg["namespaces_to_ignore"] = draw(st.lists(st.sampled_from(["http://ex.org/", "http://ex.org/ns/", "http://other.org/v#"]), min_size=1, max_size=2, unique=True))
    case = {"g": g, "cfg": cfg, "target": {"mode": "all"}, "thr": draw(st.sampled_from([0, 0, 0.5, 1 / 3, 1])), "channels": chans}
    if draw(st.integers(0, 5)) == 0:
        dd = draw(common.dups(g, type_only=True))
        if dd and not common.restated_values(dict(case, dups=dd)):
            case["dups"] = dd
    return case


def strategy(tier):
    return cases()


selftest = c01.selftest
EXT = {"nt": "nt", "tsv_spo": "tsv", "turtle": "ttl", "turtle_iter": "ttl", "n3": "n3", "xml": "xml", "json-ld": "json"}


TTL_PREFIXES = [{"ex": "http://ex.org/", "xsd": "http://www.w3.org/2001/XMLSchema#"}, {"": "http://ex.org/"},
                {"ex": "http://ex.org/ns/", "weso-s": "http://ex.org/"}, {"shapes": "http://other.org/v#", "": "http://ex.org/ns/"}]
NS_DICTS = [None, None, {"http://other.org/v#": "ex"}, {"http://ex.org/ns/": "", "http://ex.org/": "weso-s"}]


REBIND = [{"ex": "http://ex.org/", "n": "http://ex.org/ns/", "": "http://other.org/v#"},
          {"ex": "http://ex.org/ns/", "n": "http://ex.org/", "": "https://data.example/"}]


def content(fmt, triples, pfx=0):
    if fmt == "nt":
        return to_nt(triples)
    if fmt == "tsv_spo":
        return to_tsv(triples)
    if fmt in ("turtle", "turtle_iter", "n3"):
        # every second prefix choice also writes xsd:integer literals in Turtle's number shorthand (-5, +3, 42)
        bare = (pfx // len(TTL_PREFIXES)) % 2 == 1
        if (pfx // (2 * len(TTL_PREFIXES))) % 2 == 1 and len(triples) >= 2:
            # two documents concatenated: the second half re-binds the prefix labels of the first half to other namespaces
            h = len(triples) // 2
            return to_simple_turtle(triples[:h], REBIND[0], bare_integers=bare) + to_simple_turtle(triples[h:], REBIND[1], bare_integers=bare)
        return to_simple_turtle(triples, TTL_PREFIXES[pfx % len(TTL_PREFIXES)], bare_integers=bare, layout=pfx // (4 * len(TTL_PREFIXES)))
    g = to_rdflib(triples)
    for k, v in TTL_PREFIXES[pfx % len(TTL_PREFIXES)].items():
        g.bind(k, v)        # the serialised document declares these prefixes too
    return g.serialize(format="xml" if fmt == "xml" else "json-ld")


def write(path, text, comp, members=1):
    if comp == "gz" and members > 1:
        # a gz file written in batches (gzip.open(path, "ab"), cat a.gz b.gz, bgzip): several gzip members, one document
        data = text.encode("utf-8")
        cut = len(data) // 2
        with open(path, "wb") as f:
            f.write(gzip.compress(data[:cut]))
            f.write(gzip.compress(data[cut:]))
    elif comp == "gz":
        with gzip.open(path, "wt", encoding="utf-8") as f:
            f.write(text)
    elif comp == "xz":
        with lzma.open(path, "wt", encoding="utf-8") as f:
            f.write(text)
    else:
        with open(path, "w", encoding="utf-8") as f:
            f.write(text)


def split(triples, ch):
    k = ch["parts"]
    parts = [[] for _ in range(k)]
    a = ch["assign"]
    for i, t in enumerate(triples):
        parts[a[i % len(a)] % k].append(t)
    return [p for p in parts if p] or [list(triples)]


def channel_kwargs(ch, triples, d, idx):
    fmt, how, comp = ch["fmt"], ch["how"], ch["comp"]
    kw = {}
    if how == "rdflib":
        kw["rdflib_graph"] = to_rdflib(triples)
        for k, v in TTL_PREFIXES[ch.get("pfx", 0) % len(TTL_PREFIXES)].items():
            kw["rdflib_graph"].bind(k, v)
        return kw
    kw["input_format"] = fmt
    ext = EXT[fmt]
    if how == "raw":
        kw["raw_graph"] = content(fmt, triples, ch.get("pfx", 0))
        return kw
    parts = split(triples, ch) if (how in ("files", "urls") or comp == "zip") else [list(triples)]
    if comp == "zip":
        kw["compression_mode"] = "zip"
        nz = ch["zips"] if how == "files" else 1
        zips = []
        for z in range(nz):
            zp = os.path.join(d, "c%d_%d.zip" % (idx, z))
            with zipfile.ZipFile(zp, "w") as zf:
                for j, p in enumerate(parts):
                    if j % nz == z:
                        # members may sit in folders of the archive (a zipped directory); folder entries themselves are not files
                        folder = ["", "dump/", "dump/sub/"][(j + ch.get("pfx", 0)) % 3]
                        if folder and folder not in zf.namelist():
                            zf.writestr(folder, "")
                        zf.writestr("%sm%d.%s" % (folder, j, ext), content(fmt, p, ch.get("pfx", 0)))
                if not zf.namelist():
                    zf.writestr("empty.%s" % ext, content(fmt, []) if fmt not in ("xml", "json-ld") else content(fmt, parts[0][:0]))
            zips.append(zp)
        if how == "file":
            kw["graph_file_input"] = zips[0]
        else:
            kw["graph_list_of_files_input"] = zips
        return kw
    paths = []
    for j, p in enumerate(parts):
        path = os.path.join(d, "c%d_p%d.%s%s" % (idx, j, ext, {"gz": ".gz", "xz": ".xz"}.get(comp, "")))
        write(path, content(fmt, p, ch.get("pfx", 0)), comp, members=2 if ch.get("pfx", 0) % 3 == 0 else 1)
        paths.append(path)
    if ch.get("empty_at") is not None and how == "files":
        path = os.path.join(d, "c%d_empty.%s%s" % (idx, ext, {"gz": ".gz", "xz": ".xz"}.get(comp, "")))
        write(path, "", comp)
        paths.insert(ch["empty_at"] % (len(paths) + 1), path)
    if comp:
        kw["compression_mode"] = comp
    if how == "file":
        kw["graph_file_input"] = paths[0]
    elif how == "files":
        kw["graph_list_of_files_input"] = paths
    elif how == "url":
        kw["url_graph_input"] = "file://" + paths[0]
    elif how == "urls":
        kw["list_of_url_input"] = ["file://" + p for p in paths]
    return kw


def check(case):
    kw, triples = common.base_kwargs(case)
    cfg = case["cfg"]
    inst_prop = case["g"]["inst_prop"]
    thr = case["thr"]
    ref_text, crash = sut.shex(kw, acceptance_threshold=thr)
    if crash is not None:
        return discard("crash-reference:" + crash.bucket)
    try:
        ref = oracle.read_canon(ref_text, inst_prop)
    except oracle.shexc.ShExCError:
        return discard("unparsable-output")
    if "__dup_labels__" in ref:
        return discard("label-collision")
    M, sel, label_of = common.model_for(case, triples)
    labels = set()
    rich = any(o[0] == "lit" and (o[3] or o[2] != XSD_STRING) for s, p, o in triples)
    nt = False
    kn = None
    base = {k: v for k, v in kw.items() if k != "raw_graph"}
    # the statements of the document: the graph's triples plus re-stated typing statements (still the same graph; the reference
    # run above read them too).  Re-stated VALUE statements are the known finding C01-DUPVALUE and are not generated here.
    doc = common.doc_triples(case, triples)
    if case.get("dups"):
        labels.add("restated-typing-statements")
    with sut.tmpdir() as d:
        for idx, ch in enumerate(case["channels"]):
            ckw = dict(base)
            if "namespaces_dict" in ckw:
                ckw["namespaces_dict"] = dict(ckw["namespaces_dict"])
            try:
                ckw.update(channel_kwargs(ch, doc, d, idx))
            except Exception as e:      # rdflib cannot serialise this graph in that syntax: generator-side limitation
                labels.add("discard-channel:serialise-" + ch["fmt"])
                continue
            labels.add("fmt:" + ch["fmt"])
            labels.add("how:" + ch["how"])
            if ch["comp"]:
                labels.add("comp")
                labels.add("comp:" + ch["comp"])
            multi = ch["parts"] > 1 and (ch["how"] in ("files", "urls") or ch["comp"] == "zip")
            if multi:
                labels.add("multi-file")
            if ch.get("empty_at") is not None:
                labels.add("empty-file-in-list")
            if rich and (multi or ch["comp"] or ch["fmt"] != "nt"):
                nt = True
            text, crash = sut.shex(ckw, acceptance_threshold=thr)
            desc = "channel %s/%s/comp=%s/parts=%d" % (ch["fmt"], ch["how"], ch["comp"], ch["parts"])
            if crash is not None:
                return violation("%s raises %s: %s while the raw N-Triples run succeeds\n%s" % (desc, crash.bucket, crash.msg, crash.tb[-800:]), labels, nt)
            try:
                got = oracle.read_canon(text, inst_prop)
            except oracle.shexc.ShExCError as e:
                if oracle.is_bnode_valueset_finding(text, e, cfg, triples, inst_prop):
                    return known("C05-BNODEVALUESET", str(e), labels, nt)
                return violation("%s: output does not parse (%s)\n%s" % (desc, e, text), labels, nt)
            viol, k = c09.compare_docs(ref, got, M, label_of, thr, cfg.get("keep_less_specific", True), (ref_text, text),
                                       cfg.get("disable_exact_cardinality", False))
            if viol:
                return violation("%s differs from the raw N-Triples run: %s\n--- reference ---\n%s\n--- channel ---\n%s" % (desc, "; ".join(viol[:3]), ref_text, text), labels, nt)
            if k:
                kn = k[0][0]
        # ---- re-delivery: the files of one channel are replaced, at the SAME paths, by another graph (a reader that keeps
        # handles / contents per path would answer with the first graph)
        redo = [(i, ch) for i, ch in enumerate(case["channels"]) if ch["how"] in ("file", "files") and ch["fmt"] != "rdflib"]
        if redo:
            idx, ch = redo[0]
            extra_node = ("iri", "http://ex.org/zz9")
            cls = next((o for s_, p_, o in triples if p_ == inst_prop and o[0] == "iri"), ("iri", "http://ex.org/C0"))
            triples2 = list(triples) + [(extra_node, inst_prop, cls), (extra_node, "http://ex.org/extra9", ("lit", "1", XSD_STRING, ""))]
            ref2_text, c_ref2 = sut.shex(dict(kw, raw_graph=to_nt(triples2)), acceptance_threshold=thr)
            ckw = dict(base)
            if "namespaces_dict" in ckw:
                ckw["namespaces_dict"] = dict(ckw["namespaces_dict"])
            try:
                ckw.update(channel_kwargs(ch, triples2, d, idx))
                text2, c2 = sut.shex(ckw, acceptance_threshold=thr)
            except Exception:
                text2, c2, c_ref2 = None, None, True
            if c_ref2 is None and text2 is not None:
                labels.add("re-delivery-same-path")
                if c2 is not None:
                    return violation("second extraction from files replaced at the same paths raises %s: %s" % (c2.bucket, c2.msg), labels, nt)
                try:
                    r2, g2 = oracle.read_all([ref2_text, text2], inst_prop)
                except oracle.OneSided as e:
                    return violation(str(e), labels, nt)
                except oracle.shexc.ShExCError:
                    r2 = g2 = None
                if r2 is not None:
                    has_extra = any(k[0][1] == "http://ex.org/extra9" for cs in g2.values() if not isinstance(cs, list) for k in cs.cons)
                    want_extra = any(k[0][1] == "http://ex.org/extra9" for cs in r2.values() if not isinstance(cs, list) for k in cs.cons)
                    if has_extra != want_extra or {l: cs.n for l, cs in r2.items() if not isinstance(cs, list)} != {l: cs.n for l, cs in g2.items() if not isinstance(cs, list)}:
                        return violation("channel %s/%s/comp=%s: after the files were replaced at the same paths by another graph, the extraction "
                                         "does not reflect the new content\n--- expected (raw N-Triples of the new graph) ---\n%s\n--- got ---\n%s" % (
                                             ch["fmt"], ch["how"], ch["comp"], ref2_text, text2), labels, nt)
    if nt:
        labels.add("nontrivial")
    if kn:
        return known(kn, "", labels, nt)
    return ok(labels, nt)
