"""C01 - every reported instance count and frequency is exact.

Quantifier (properties.jsonl): all duplicate-free graphs x all target-selection modes x every combination of
inference switches x thresholds in [0,1]; NONLITERAL lines only when no instance has both kinds.
Oracle: reference profiler (vf/refmodel.py) recomputes every figure from the abstract triples.
"""
from hypothesis import strategies as st
from .. import sut, oracle, common, gen_graph as gg
from ..runner import ok, violation, known, discard
from ..rdfmodel import RDF_TYPE

PID = "C01"
RULE = ("Hypothesis: general graphs (1-4 classes, <=7 nodes IRI/bnode with 0..n classes, <=4 properties, literal kinds "
        "plain/lang/typed, untyped and typed non-literal values) x {all_classes_mode, target_classes subset} x instantiation "
        "property x 6 switches x threshold x report mode x decimals.  Oracle: independent reference profiler; every printed "
        "'# N instances', line figure and comment fact is recomputed.  Non-trivial: >=1 shape with >=2 instances and >=1 "
        "printed figure below 100 %; distinct by SHA-1 of the case.")
ASSUMPTIONS = ["CPython 3.12, Hypothesis 6.168", "vf/shexc.py reads the ShExC subset correctly (self-tested on the golden files)",
               "vf/refmodel.py encodes the counting semantics stated in the property"]
BUDGET = {"quick": {"examples": 16000, "wall": 120}, "thorough": {"examples": 500000, "wall": 5400}}
FLOORS = {"nontrivial": 0.12, "multi-typed": 0.12, "bnode-instance": 0.12, "shape-ref": 0.15, "inverse": 0.06, "card>1-below-100": 0.09}
OWN = ("NINST", "COUNT", "RATIO", "OVER100")
KNOWN = ("C01-NONLIT", "C01-NONLIT-KLS", "C13-DEC0")


@st.composite
def cases(draw, tier="quick"):
    big = draw(st.integers(0, 5)) == 0      # now and then more instances per class and higher cardinalities
    odd = draw(st.integers(0, 3)) == 0       # literals spelling a node's IRI, classes that are typed / used as values
    g = draw(gg.general(max_nodes=12 if big else 7, max_stmts=48 if big else 30, iri_like_literals=odd, class_typing=odd, inst_props=(RDF_TYPE, RDF_TYPE, RDF_TYPE, "http://ex.org/isA", gg.INST_PROPS[2])))
    cfg = draw(gg.switches())
    cfg.update(draw(gg.harmless_extras()))
    cfg["instances_report_mode"] = draw(st.sampled_from(["mixed", "mixed", "mixed", "mixed", "ratio", "abs"]))
    d = draw(st.sampled_from([-1, -1, -1, -1, 2, 5, 1]))
    if d != -1:
        cfg["decimals"] = d
    target = draw(common.target_spec(g))
    thr = draw(gg.thresholds())
    return {"g": g, "cfg": cfg, "target": target, "thr": thr}


def strategy(tier):
    return cases(tier)


def selftest():
    from .. import shexc_selftest
    shexc_selftest.run()


def evaluate(case, own=OWN):
    """shared with C02/C10/C16: returns (Outcome-or-None, findings, labels, model context)"""
    case = common.expanded(case)
    kw, triples = common.base_kwargs(case)
    text, crash = sut.shex(kw, acceptance_threshold=case["thr"])
    if crash is not None:
        return discard("crash:" + crash.bucket), None, None, None
    cfg = case["cfg"]
    inst_prop = case["g"]["inst_prop"]
    try:
        cdoc = oracle.read_canon(text, inst_prop)
    except oracle.shexc.ShExCError as e:
        return discard("unparsable-output"), None, None, None
    twin = None
    if cfg.get("disable_exact_cardinality"):
        kw2 = dict(kw)
        kw2["disable_exact_cardinality"] = False
        t2, c2 = sut.shex(kw2, acceptance_threshold=case["thr"])
        if c2 is None:
            try:
                twin = oracle.read_canon(t2, inst_prop)
            except oracle.shexc.ShExCError:
                twin = None
    M, sel, label_of = common.model_for(case, triples)
    if len(set(label_of.values())) != len(label_of):
        return discard("label-collision"), None, None, None
    finds = oracle.compare(cdoc, M, label_of, case["thr"], cfg, twin=twin, decimals=cfg.get("decimals", -1))
    labels = common.label_features(triples, sel, M)
    return None, finds, labels, (cdoc, M, sel, label_of, text)


def nontrivial_c01(cdoc, M, label_of):
    for S, lab in label_of.items():
        cs = cdoc.get(lab)
        if cs is None or M.N[S] < 2:
            continue
        for f in cs.facts:
            if f[3] is not None and f[3] < M.N[S]:
                return True
            if f[3] is None and f[4] is not None and float(f[4]) < 100:
                return True
    return False


def check(case):
    early, finds, labels, ctx = evaluate(case)
    if early is not None:
        return early
    cdoc, M, sel, label_of, text = ctx
    nt = nontrivial_c01(cdoc, M, label_of)
    if nt:
        labels.add("nontrivial")
    mine = [f for f in finds if f.cat in OWN]
    bad = [f for f in mine if f.sig not in KNOWN]
    if bad:
        return violation("; ".join(map(repr, bad[:3])) + "\n--- output ---\n" + text[:3000], labels, nt)
    if mine:
        return known(mine[0].sig, repr(mine[0]), labels, nt)
    return ok(labels, nt)


def enumerate_cases(tier):
    """scale family: very small and very large ratios (1/10001, 10000/10001) in every report mode"""
    sizes = [(250, 1, 1), (10001, 1, 1)] if tier == "quick" else [(250, 1, 1), (1000, 3, 2), (10001, 1, 1), (20001, 2, 3)]
    for sc in sizes:
        for mode in ("mixed", "ratio"):
            for acm in (True, False):
                yield {"g": {"scale": list(sc)}, "target": {"mode": "all"}, "thr": 0,
                       "cfg": {"instances_report_mode": mode, "all_instances_are_compliant_mode": acm, "keep_less_specific": acm,
                               "inverse_paths": mode == "mixed"}}
