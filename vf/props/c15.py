"""C15 - extraction from a SPARQL endpoint equals extraction from the same graph locally.

Against an endpoint that serves graph G, shapes for target classes, all classes or shape-map selectors are the same as those
extracted from G supplied locally (IRI nodes, depth 1), and disable_endpoint_cache changes only the number of queries sent -
never the result - with caching never issuing more queries than no caching.
Oracle: differential - canonical(endpoint run through an in-process SPARQL evaluator substituted for the HTTP client) vs
canonical(local run on raw N-Triples); cache on vs off; with a cap the reference profiler on the node set actually selected.
"""
from hypothesis import strategies as st
from .. import sut, oracle, common, refmodel, fake_endpoint, selectors, gen_graph as gg
from ..runner import ok, violation, known, discard
from ..rdfmodel import RDF_TYPE, triples_from_json, to_nt
from . import c01, c09, c10

PID = "C15"
URL = "http://fake.endpoint/sparql"
RULE = ("Hypothesis: graphs with http(s) IRI nodes, plain-string literals over [A-Za-z ] (not number-like), language-tagged and "
        "xsd:integer literals x {target_classes, all_classes_mode, shape map (node / FOCUS / SPARQL selectors)} x cache on/off x "
        "inverse_paths x instances_cap / limit_remote_instances x switches x threshold.  Oracle: canonical(endpoint run) == "
        "canonical(local run) with the C09 tie fallback (the endpoint delivers triples in another order); cache on vs off: same "
        "canonical document and #queries(cache on) <= #queries(cache off); with a cap: the selected nodes are instances of the class, at least min(k,|class|) of them, and all figures are exact "
        "for the node set actually selected (read from the Shaper, validated as a legal selection).  Non-trivial: >=2 classes linked "
        "to each other, or inverse paths, or a cap below a class size; distinct by SHA-1 of the case.")
ASSUMPTIONS = c01.ASSUMPTIONS + ["the endpoint is rdflib's SPARQL engine behind shexer.io.sparql.query.SPARQLWrapper (replaced from outside)",
                                 "literal datatypes other than string / langString / integer are outside the domain (C15-DATATYPE known finding)"]
BUDGET = {"quick": {"examples": 4000, "wall": 200}, "thorough": {"examples": 30000, "wall": 900}}
FLOORS = {"nontrivial": 0.3, "mode:classes": 0.1, "mode:all": 0.1, "mode:sm": 0.1, "cap": 0.1}
KNOWN = ("C01-NONLIT", "C01-NONLIT-KLS", "C02-MIXEDKIND", "C02-GONEREF")


@st.composite
def cases(draw):
    g = draw(gg.general(bnodes=False, lit_kinds=["word", "lang", "integer"], max_stmts=22, odd_schemes=draw(st.integers(0, 3)) == 0,
                        quirks=(["same_local_classes"] if draw(st.integers(0, 5)) == 0 else []) +
                        # internationalised IRIs (Zo\u00eb), ':' in local names, hash properties: a node is asked for by its IRI as it is
                        draw(gg.quirk_set(allowed=("unicode_iris", "unicode_iris", "colon_locals", "hash_props", "urn_nodes"), one_in=3))))
    cfg = draw(gg.switches())
    cfg["instances_report_mode"] = "mixed"
    mode = draw(st.sampled_from(["classes", "all", "sm"]))
    case = {"g": g, "cfg": cfg, "mode": mode, "thr": draw(st.sampled_from([0, 0, 0.5, 1 / 3, 1])), "cache_off": draw(st.booleans())}
    if mode == "classes":
        case["classes"] = draw(st.lists(st.sampled_from(g["classes"]), min_size=1, max_size=len(g["classes"]), unique=True))
        case["spelling"] = draw(st.lists(st.integers(0, 2), min_size=len(case["classes"]), max_size=len(case["classes"])))
    if mode == "sm":
        n = draw(st.integers(1, 2))
        case["items"] = [{"sel": draw(c10.selector(g)), "label": {"form": "full", "name": "S%d" % i},
                          "styles": draw(st.lists(st.integers(0, 1), min_size=4, max_size=4))} for i in range(n)]
    if mode != "sm" and draw(st.integers(0, 2)) == 0:
        case["cap"] = [draw(st.sampled_from(["instances_cap", "limit_remote_instances"])), draw(st.integers(1, 3))]
    return case


def strategy(tier):
    return cases()


selftest = c01.selftest


def looks_lexically_unsafe(triples):
    for s, p, o in triples:
        if o[0] == "lit" and not o[3] and o[2].endswith("string"):
            lex = o[1].strip()
            if lex == "":
                continue        # the empty string is an ordinary plain literal
            if lex[0] in "<_\"'" or lex[0].isdigit() or lex[0] in "+-.":
                return True
            try:
                float(lex)
                return True
            except ValueError:
                pass
    return False


def check(case):
    g = case["g"]
    triples = triples_from_json(g["triples"])
    # literal "" and number-like strings are outside the domain (C15-LEXICAL)
    unsafe_lex = looks_lexically_unsafe(triples)
    other_dt = any(o[0] == "lit" and not o[3] and not (o[2].endswith("#string") or o[2].endswith("#integer")) for s, p, o in triples)
    cfg = case["cfg"]
    thr = case["thr"]
    inst_prop = g["inst_prop"]
    labels = {"mode:" + case["mode"]}
    common_kw = dict(cfg)
    common_kw["namespaces_dict"] = dict(c10.NSD)
    sel_expected = None
    if case["mode"] == "classes":
        common_kw["target_classes"] = [c10.spell(c, sp) for c, sp in zip(case["classes"], case.get("spelling") or [0] * 99)]
        full_sel = refmodel.select_by_classes(triples, inst_prop, set(case["classes"]))
    elif case["mode"] == "all":
        common_kw["all_classes_mode"] = True
        full_sel = refmodel.select_by_classes(triples, inst_prop)
    else:
        lines = []
        full_sel = {}
        for it in case["items"]:
            ans = selectors.evaluate(it["sel"], triples)
            if any(a[0] != "iri" for a in ans):
                return discard("non-iri-answer")
            key = it["label"]["name"]
            lst = full_sel.setdefault(key, [])
            for a in ans:
                if a[1] not in lst:
                    lst.append(a[1])
            lines.append("%s@%s" % (selectors.render(it["sel"], c10.NSD, it["styles"]), c10.label_text(it["label"])))
        common_kw["shape_map_raw"] = "\n".join(lines)
    cap = case.get("cap")
    typed = {n for v in full_sel.values() for n in v}
    linked = any(p != inst_prop and o[0] == "iri" and o[1] in typed and s[1] in typed for s, p, o in triples)
    nt = (linked and len(full_sel) >= 2) or bool(cfg.get("inverse_paths")) or bool(cap and any(len(v) > cap[1] for v in full_sel.values()))
    if cfg.get("inverse_paths"):
        labels.add("inverse")
    if nt:
        labels.add("nontrivial")

    def endpoint_run(cache_off):
        kw = dict(common_kw, url_endpoint=URL, disable_endpoint_cache=cache_off)
        if cap:
            kw[cap[0]] = cap[1]
        holder = {}
        with fake_endpoint.serving(URL, triples) as log:
            def go():
                sh = sut.Shaper(**kw)
                holder["s"] = sh
                return sh.shex_graph(string_output=True, acceptance_threshold=thr)
            text, crash = sut.guarded(go, 60)
            n = len(log())
        return text, crash, n, holder.get("s")

    text_e, crash_e, n_e, shaper = endpoint_run(case["cache_off"])
    text_e2, crash_e2, n_e2, _ = endpoint_run(not case["cache_off"])
    local_kw = dict(common_kw, raw_graph=to_nt(triples))
    text_l, crash_l = sut.shex(local_kw, acceptance_threshold=thr)
    if crash_l is not None:
        return discard("crash-local:" + crash_l.bucket)
    if crash_e is not None or crash_e2 is not None:
        c = crash_e or crash_e2
        return violation("endpoint run raises %s: %s while the local run succeeds\n%s" % (c.bucket, c.msg, c.tb[-1000:]), labels, nt)
    try:
        ce, ce2, cl = oracle.read_all([text_e, text_e2, text_l], inst_prop)
    except oracle.OneSided as e:
        return violation(str(e), labels, nt)
    except oracle.shexc.ShExCError:
        return discard("unparsable-output")
    if any("__dup_labels__" in d for d in (ce, ce2, cl)) or len({refmodel.class_label(c) for c in full_sel}) != len(full_sel):
        # two selected classes share their local name, so two shapes share one label (C05-DUPLABEL): the canonical documents
        # cannot tell them apart; the endpoint must still deliver the same multiset of shapes as the local run
        if case["mode"] == "sm" or cap:
            return discard("label-collision")
        labels.add("shared-local-name")

        def sigs(text):
            return sorted((sh.label, sh.n_instances, tuple(sorted(("^" if c.inverse else "") + c.pred for c in sh.constraints)))
                          for sh in oracle.shexc.read(text).shapes)
        if not (sigs(text_e) == sigs(text_e2) == sigs(text_l)):
            return violation("two classes share a local name; multiset of shapes (label, instances, predicates) differs:\n local %s\n endpoint %s\n endpoint (other cache mode) %s" % (
                sigs(text_l), sigs(text_e), sigs(text_e2)), labels, nt)
        return ok(labels, nt)
    # ---- cache on vs off
    n_on, n_off = (n_e2, n_e) if case["cache_off"] else (n_e, n_e2)
    labels.add("queries-saved" if n_on < n_off else "queries-equal")
    if n_on > n_off:
        return violation("caching issued more queries (%d) than no caching (%d)" % (n_on, n_off), labels, nt)
    kls = cfg.get("keep_less_specific", True)
    dec = cfg.get("disable_exact_cardinality", False)
    kn = None
    # model on the full selection (used for the tie detector)
    if case["mode"] == "sm":
        label_of = {k: c10.LABEL_NS + k for k in full_sel}
    else:
        label_of = {c: refmodel.class_label(c) for c in full_sel}
    if len(set(label_of.values())) != len(label_of):
        return discard("label-collision")
    M = refmodel.Model(triples, full_sel, label_of, inst_prop, cfg.get("inverse_paths", False))
    if cap is None:
        viol, k = c09.compare_docs(ce, ce2, M, label_of, thr, kls, None, dec)
        if viol:
            return violation("disable_endpoint_cache changes the result: %s\n--- cache %s ---\n%s\n--- cache %s ---\n%s" % (
                "; ".join(viol[:3]), "off" if case["cache_off"] else "on", text_e, "on" if case["cache_off"] else "off", text_e2), labels, nt)
        if k:
            kn = k[0][0]
        viol, k = c09.compare_docs(cl, ce, M, label_of, thr, kls, None, dec)
        if viol and unsafe_lex:
            return known("C15-LEXICAL", "; ".join(viol[:2]), labels, nt)
        if viol and other_dt:
            return known("C15-DATATYPE", "; ".join(viol[:2]), labels, nt)
        if viol:
            return violation("endpoint extraction differs from local extraction: %s\n--- local ---\n%s\n--- endpoint ---\n%s" % ("; ".join(viol[:3]), text_l, text_e), labels, nt)
        if k:
            kn = k[0][0]
    else:
        labels.add("cap")
        # the node set actually selected, read from the Shaper and validated as a legal selection
        tdict = shaper._target_classes_dict
        chosen = {}
        for node, entry in tdict.items():
            classes = entry[0] if isinstance(entry, tuple) else entry
            for c in classes:
                chosen.setdefault(c, []).append(node)
        # labels used by the endpoint path are shape names; map back through the printed label
        sel_cap = {}
        for S, nodes in full_sel.items():
            lab = label_of[S]
            picked = None
            for c, ns in chosen.items():
                if refmodel.local_name(c.strip("<>%@")) == refmodel.local_name(lab):
                    picked = ns
            picked = picked or []
            if not set(picked) <= set(nodes):
                return violation("cap: shape %s was computed from nodes %s that are not instances of the class (%s)" % (lab, picked, nodes), labels, nt)
            # a node selected for another class that is also an instance of this one legitimately shows up here, so the
            # number of nodes is at least min(k, |class|) (and at most |class|, by the subset test above)
            if len(set(picked)) < min(cap[1], len(nodes)):
                return violation("cap %s=%d: only %d nodes selected for %s, expected at least min(k, |class|) = %d" % (cap[0], cap[1], len(set(picked)), lab, min(cap[1], len(nodes))), labels, nt)
            if len(set(picked)) < len(nodes):
                labels.add("cap-bites")
            sel_cap[S] = list(dict.fromkeys(picked))
        Mc = refmodel.Model(triples, sel_cap, label_of, inst_prop, cfg.get("inverse_paths", False))
        twin = None
        finds = [f for f in oracle.compare(ce, Mc, label_of, thr, dict(cfg, disable_exact_cardinality=False) if False else cfg) if not (dec and f.cat == "COUNT" and "(line)" in f.detail)]
        bad = [f for f in finds if f.sig not in KNOWN]
        if bad:
            return violation("cap %s=%d: %s\nselected: %s\n%s" % (cap[0], cap[1], "; ".join(map(repr, bad[:3])), sel_cap, text_e), labels, nt)
        if finds:
            kn = finds[0].sig
    if kn:
        return known(kn, "", labels, nt)
    return ok(labels, nt)
