"""C12 - raising the acceptance threshold only removes constraints.

For t1 <= t2: keys(t2) subset of keys(t1), shapes(t2) subset of shapes(t1), every figure printed for an alternative at both
thresholds is identical; at t = 0 nothing observed is omitted, at t = 1 only features of all instances remain.
Oracle: metamorphic relation between the canonical documents of fresh Shapers, one per threshold of a grid that
contains every k/n boundary of the class sizes present; end points against the reference profiler.
"""
import itertools
from hypothesis import strategies as st
from .. import sut, oracle, common, refmodel, gen_graph as gg
from ..runner import ok, violation, known, discard
from ..rdfmodel import RDF_TYPE, triples_from_json
from . import c01

PID = "C12"
RULE = ("Hypothesis: general graphs x switches x target mode; per graph a threshold grid {0, every k/n of the class sizes present, "
        "0.5, 0.51, 1} (all grid points run with fresh Shapers, all ordered pairs compared; quick caps the grid at 8 points).  "
        "Oracle: key/shape monotonicity, equal figures for alternatives printed at both thresholds, end points vs reference profiler. "
        "An evaluation is one graph x configuration (all its pairs).  Non-trivial: some pair with keys(t2) a proper subset of keys(t1); "
        "distinct by SHA-1 of the case.")
ASSUMPTIONS = c01.ASSUMPTIONS
BUDGET = {"quick": {"examples": 4800, "wall": 150}, "thorough": {"examples": 100000, "wall": 900}}
FLOORS = {"nontrivial": 0.3}
KNOWN = ("C02-MIXEDKIND", "C02-GONEREF")


@st.composite
def table_case(draw, tier):
    """cardinality tables: ONE class of 4-9 instances and 1-2 properties; per instance and property a drawn number (0-3) of plain IRI
    values and (0-2) of values that belong to a second shape E.  E is a shape-map label on nodes that are never subjects (its shape
    has no constraints and is removed), a class with a property of its own, or absent.  The general generator has few instances per
    class, so that the exact cardinalities {1}, {2} and '+' of one alternative rarely have three different frequencies."""
    n = draw(st.integers(4, 9))
    kindE = draw(st.sampled_from(["sm-empty", "sm-empty", "class", "none"]))
    A = "http://ex.org/C0"
    tr = []
    for i in range(n):
        tr.append([["iri", "http://ex.org/a%d" % i], RDF_TYPE, ["iri", A]])
    E = ["http://ex.org/e%d" % j for j in range(3)]
    for pi in range(draw(st.integers(1, 2))):
        p = "http://ex.org/p%d" % pi
        for i in range(n):
            a = draw(st.sampled_from([0, 1, 1, 1, 2, 2, 3]))
            b = 0 if kindE == "none" else draw(st.sampled_from([0, 0, 1, 1, 2]))
            for x in range(a):
                tr.append([["iri", "http://ex.org/a%d" % i], p, ["iri", "http://ex.org/u%d" % x]])
            for x in range(b):
                tr.append([["iri", "http://ex.org/a%d" % i], p, ["iri", E[(i + x) % 3]]])
    if kindE == "class":
        for e in E:
            tr.append([["iri", e], RDF_TYPE, ["iri", "http://ex.org/ns/C1"]])
            tr.append([["iri", e], "http://ex.org/ns/q", ["lit", "v", "http://www.w3.org/2001/XMLSchema#string", ""]])
    perm = draw(st.permutations(range(len(tr))))
    g = {"triples": [tr[i] for i in perm], "classes": [A] + (["http://ex.org/ns/C1"] if kindE == "class" else []), "inst_prop": RDF_TYPE}
    cfg = draw(gg.switches())
    cfg["instances_report_mode"] = "mixed"
    if kindE == "sm-empty":
        items = [{"sel": {"kind": "focus", "pos": "s", "p": "a", "other": A}, "label": "<http://sh.org/S0>", "styles": [0, 0, 0, 0]}]
        items += [{"sel": {"kind": "node", "iri": e}, "label": "<http://sh.org/S1>", "styles": [0, 0, 0, 0]} for e in E]
        target = {"mode": "sm", "with_all": False, "items": items}
    else:
        target = {"mode": "all"}
    grid = sorted(set([0, 1, 0.5, 0.51] + [k / n for k in range(1, n + 1)] + [k / n + 1e-9 for k in range(1, n)]))
    cap = 10 if tier == "quick" else 20
    if len(grid) > cap:
        extra = draw(st.lists(st.sampled_from(grid), min_size=cap - 2, max_size=cap - 2, unique=True))
        grid = sorted(set([0, 1] + extra))
    return {"g": g, "cfg": cfg, "target": target, "grid": grid, "table": True}


@st.composite
def cases(draw, tier):
    if draw(st.integers(0, 4)) == 0:
        return draw(table_case(tier))
    g = draw(gg.general(inst_props=(RDF_TYPE, RDF_TYPE, RDF_TYPE, "http://ex.org/isA"), quirks=draw(gg.quirk_set(one_in=4))))
    cfg = draw(gg.switches())
    cfg.update(draw(gg.harmless_extras()))
    cfg["instances_report_mode"] = "mixed"
    target = draw(common.target_spec(g))
    if draw(st.integers(0, 3)) == 0:
        # shape-map shapes: unlike class shapes (which always keep their typing constraint) they can lose every constraint at a
        # higher threshold and be removed, together with the references to them
        from . import c10
        n = draw(st.integers(1, 3))
        target = {"mode": "sm", "with_all": draw(st.booleans()),
                  "items": [{"sel": draw(c10.selector(g)), "label": "<http://sh.org/S%d>" % i,
                             "styles": draw(st.lists(st.integers(0, 1), min_size=4, max_size=4))} for i in range(n)]}
    sel = refmodel.select_by_classes(triples_from_json(g["triples"]), g["inst_prop"])
    sizes = sorted({len(v) for v in sel.values()})
    bounds = sorted({k / n for n in sizes for k in range(1, n + 1)})
    grid = sorted(set([0, 1, 0.5, 0.51] + bounds))
    cap = 8 if tier == "quick" else 14
    if len(grid) > cap:
        extra = draw(st.lists(st.sampled_from(grid), min_size=cap - 2, max_size=cap - 2, unique=True))
        grid = sorted(set([0, 1] + extra))
    if draw(st.booleans()):
        grid = sorted(set(grid + [draw(st.floats(0, 1, allow_nan=False))]))
    case = {"g": g, "cfg": cfg, "target": target, "grid": grid}
    if draw(st.integers(0, 2)) == 0:
        # the same grid on ONE Shaper object, in a drawn order: every answer must equal the fresh-Shaper answer
        case["reuse_order"] = list(draw(st.permutations(range(len(grid)))))
    return case


def strategy(tier):
    return cases(tier)


selftest = c01.selftest


figures = oracle.fact_map


def check(case):
    sm = case["target"] if case["target"]["mode"] == "sm" else None
    if sm is not None:
        from .. import selectors
        from . import c10
        triples_ = triples_from_json(case["g"]["triples"])
        for it in sm["items"]:
            if any(a[0] != "iri" for a in selectors.evaluate(it["sel"], triples_)):
                return discard("non-iri-answer")     # rdflib re-labels blank nodes on every parse
        kw, triples = common.base_kwargs(dict(case, target={"mode": "all"}))
        if not sm["with_all"]:
            kw.pop("all_classes_mode", None)
        kw["shape_map_raw"] = "\n".join("%s@%s" % (selectors.render(it["sel"], c10.NSD, it["styles"]), it["label"]) for it in sm["items"])
        kw["namespaces_dict"] = dict(c10.NSD)
        # model of the shape-map selection (used only to recognise the known finding C02-GONEREF, see below)
        sm_sel, sm_label_of = {}, {}
        for it in sm["items"]:
            lst = sm_sel.setdefault(it["label"], [])
            for a in selectors.evaluate(it["sel"], triples_):
                if a[1] not in lst:
                    lst.append(a[1])
            sm_label_of[it["label"]] = it["label"].strip("<>")
        if sm["with_all"]:
            for c_, nodes in refmodel.select_by_classes(triples_, case["g"]["inst_prop"]).items():
                sm_sel[c_] = nodes
                sm_label_of[c_] = refmodel.class_label(c_)
        sm_model = refmodel.Model(triples_, sm_sel, sm_label_of, case["g"]["inst_prop"], case["cfg"].get("inverse_paths", False)) \
            if len(set(sm_label_of.values())) == len(sm_label_of) else None
    else:
        kw, triples = common.base_kwargs(case)
    cfg = case["cfg"]
    inst_prop = case["g"]["inst_prop"]
    docs = {}
    texts = {}
    for t in case["grid"]:
        text, crash = sut.shex(kw, acceptance_threshold=t)
        if crash is not None:
            return discard("crash:" + crash.bucket)
        try:
            docs[t] = oracle.read_canon(text, inst_prop)
        except oracle.shexc.ShExCError as e:
            if docs:
                return violation("output at threshold %r does not parse as ShExC (%s) while lower thresholds do\n%s" % (t, e, text[:1500]), (), True)
            return discard("unparsable-output")
        texts[t] = text
        if "__dup_labels__" in docs[t]:
            return discard("label-collision")
    labels = set()
    if case.get("table"):
        labels.add("cardinality-table")
    nt = False
    dec = cfg.get("disable_exact_cardinality", False)
    kf_nonlit = []
    kf_goneref = []
    if case.get("reuse_order"):
        labels.add("reused-shaper")

        def seq():
            sh = sut.Shaper(**kw)
            return [(case["grid"][i], sh.shex_graph(string_output=True, acceptance_threshold=case["grid"][i])) for i in case["reuse_order"]]
        res, crash = sut.guarded(seq, 60)
        if crash is not None:
            return violation("a sequence of thresholds on one Shaper raises %s: %s although fresh Shapers succeed" % (crash.bucket, crash.msg), labels, True)
        for t, text in res:
            if text != texts[t]:
                return violation("threshold %r on a reused Shaper (order %s) differs from a fresh Shaper\n--- reused ---\n%s\n--- fresh ---\n%s" % (
                    t, [case["grid"][i] for i in case["reuse_order"]], text[:2000], texts[t][:2000]), labels, True)
    for t1, t2 in itertools.combinations(case["grid"], 2):
        a, b = docs[t1], docs[t2]
        for lab, cb in b.items():
            if lab not in a and sm is not None and sm_model is not None and cb.cons:
                # the same finding, cascading: EVERY key the shape has at t2 has the GONEREF signature at t1 (its winning alternative
                # there is a reference to a shape that is not in the t1 document), so the shape lost all its constraints and was
                # removed as empty itself
                S_ = next((k_ for k_, v_ in sm_label_of.items() if v_ == lab), None)
                if S_ is not None and all(k_[1] == ("nonliteral",) and oracle._goneref_sig(sm_model, S_, k_[0], t1, a, sm_label_of, cfg.get("keep_less_specific", True), cfg.get("disable_or_statements", True) is False)
                                          for k_ in cb.cons):
                    kf_goneref.append((lab, "whole shape", t1, t2))
                    continue
            if lab not in a:
                return violation("shape %s present at t=%r but not at t=%r\n--- t1 ---\n%s\n--- t2 ---\n%s" % (lab, t2, t1, texts[t1], texts[t2]), labels, True)
            ca = a[lab]
            kb, ka = set(cb.cons), set(ca.cons)
            if not kb <= ka and sm is not None and sm_model is not None:
                # C02-GONEREF makes a non-literal key vanish at the LOWER threshold: there the winning alternative is a reference to
                # a shape without constraints (a shape-map shape on nodes that are never subjects), and the constraint is dropped with
                # that shape instead of falling back to IRI; above the reference's own frequency the plain node kind wins and the key
                # is printed.  Excused only when every vanished key has exactly that signature at t1.
                S_ = next((k_ for k_, v_ in sm_label_of.items() if v_ == lab), None)
                gone = kb - ka
                if S_ is not None and all(k_[1] == ("nonliteral",) and oracle._goneref_sig(sm_model, S_, k_[0], t1, a, sm_label_of, cfg.get("keep_less_specific", True), cfg.get("disable_or_statements", True) is False)
                                          for k_ in gone):
                    kf_goneref.append((lab, sorted(map(str, gone)), t1, t2))
                    continue
            if not kb <= ka:
                return violation("keys %s of %s present at t=%r but not at t=%r\n--- t1 ---\n%s\n--- t2 ---\n%s" % (sorted(kb - ka), lab, t2, t1, texts[t1], texts[t2]), labels, True)
            if kb < ka:
                nt = True
            if ca.n != cb.n:
                return violation("instance count of %s differs between t=%r (%s) and t=%r (%s)" % (lab, t1, ca.n, t2, cb.n), labels, True)
            fa, fb = figures(ca, dec), figures(cb, dec)
            for k in set(fa) & set(fb):
                if fa[k] != fb[k] and k[1] == ("kind", "NONLITERAL"):
                    # merged IRI+BNode line: its figure is the sum of whichever constituents were chosen (C01-NONLIT root cause)
                    kf_nonlit.append(k)
                    continue
                if fa[k] != fb[k]:
                    return violation("figure of surviving alternative %s in %s differs: t=%r -> %s, t=%r -> %s\n--- t1 ---\n%s\n--- t2 ---\n%s" % (k, lab, t1, fa[k], t2, fb[k], texts[t1], texts[t2]), labels, True)
    if sm is not None:
        labels.add("shape-map")
        if nt:
            labels.add("nontrivial")
        labels.add("grid-%d" % min(len(case["grid"]), 9))
        kf_sm = None
        if sm_model is not None:
            for t in (0, 1):
                if t not in docs:
                    continue
                finds = [f for f in oracle.compare(docs[t], sm_model, sm_label_of, t, cfg) if f.cat in ("KEY_MISSING", "KEY_EXTRA", "SHAPE_MISSING", "SHAPE_UNEXPECTED")]
                bad = [f for f in finds if f.sig not in KNOWN]
                if bad:
                    what = "something observed is omitted" if t == 0 else "a feature not shared by all instances remains"
                    return violation("at threshold %d %s: %s\nshape map:\n%s\n%s" % (t, what, "; ".join(map(repr, bad[:3])), kw["shape_map_raw"], texts[t]), labels, True)
                if finds:
                    kf_sm = finds[0].sig
        if kf_goneref:
            return known("C02-GONEREF", repr(kf_goneref[0]), labels, nt)
        if kf_nonlit:
            return known("C12-NONLIT", repr(kf_nonlit[0]), labels, nt)
        if kf_sm:
            return known(kf_sm, "", labels, nt)
        return ok(labels, nt)
    # end points against the reference profiler
    M, sel, label_of = common.model_for(case, triples)
    if len(set(label_of.values())) != len(label_of):
        return discard("label-collision")
    kf = None
    for t in (0, 1):
        if t not in docs:
            continue
        finds = [f for f in oracle.compare(docs[t], M, label_of, t, cfg) if f.cat in ("KEY_MISSING", "KEY_EXTRA", "SHAPE_MISSING", "SHAPE_UNEXPECTED")]
        bad = [f for f in finds if f.sig not in KNOWN]
        if bad:
            what = "something observed is omitted" if t == 0 else "a feature not shared by all instances remains"
            return violation("at threshold %d %s: %s\n%s" % (t, what, "; ".join(map(repr, bad[:3])), texts[t]), labels, True)
        if finds:
            kf = finds[0].sig
    # "at threshold 1 only features of all instances remain": every alternative still printed (on a constraint line or in a
    # comment) is one that all instances of the shape have; the merged NONLITERAL line carries a sum (C01-NONLIT) and is left out
    if 1 in docs:
        for lab, cs in docs[1].items():
            if lab == "__dup_labels__" or cs.n is None:
                continue
            for (dp, kind, card, n, ratio) in cs.facts:
                if kind == ("kind", "NONLITERAL"):
                    continue
                if (n is not None and n != cs.n) or (n is None and ratio is not None and abs(float(ratio) - 100) > 1e-6):
                    return violation("at threshold 1 the alternative %s %s %s of %s is still reported although only %s of %s instances have it (%s %%)\n%s" % (
                        dp, kind, card, lab, n, cs.n, ratio, texts[1]), labels, True)
    if nt:
        labels.add("nontrivial")
    labels.add("grid-%d" % min(len(case["grid"]), 9))
    if kf_nonlit:
        return known("C12-NONLIT", repr(kf_nonlit[0]), labels, nt)
    if kf:
        return known(kf, "", labels, nt)
    return ok(labels, nt)
