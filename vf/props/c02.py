"""C02 - a shape holds exactly the features at or above the acceptance threshold.

For every shape and (direction, property, value class): constraint present iff frequency('at least one') >= t; never two
constraints for one key; exactly one shape per selected class with >=1 instance (with remove_empty_shapes off a requested
class without instances yields an empty shape reporting 0 instances).
Oracle: expected key set computed by the reference profiler with float semantics n/N >= t.
"""
from hypothesis import strategies as st
from .. import sut, oracle, common, refmodel, gen_graph as gg
from ..runner import ok, violation, known, discard
from ..rdfmodel import RDF_TYPE, triples_from_json
from . import c01

PID = "C02"
RULE = ("Hypothesis: general graphs x {all_classes_mode, target_classes (possibly naming a class without instances)} x 6 switches "
        "x remove_empty_shapes x thresholds biased to the k/n boundaries of the class sizes present.  Oracle: key set "
        "{(dir,p,value class): plus/N >= t} from the reference profiler vs keys read from the ShExC text (both directions), no "
        "duplicate key, shape set.  Non-trivial: >=1 key exactly at the boundary (n/N == t) or a shape with >=1 key dropped and "
        ">=1 kept; distinct by SHA-1 of the case.")
ASSUMPTIONS = c01.ASSUMPTIONS
BUDGET = {"quick": {"examples": 16000, "wall": 120}, "thorough": {"examples": 500000, "wall": 5400}}
FLOORS = {"nontrivial": 0.15, "boundary-key": 0.08, "inverse": 0.06}
OWN = ("KEY_MISSING", "KEY_EXTRA", "KEY_DUP", "SHAPE_UNEXPECTED", "SHAPE_MISSING", "LABEL_DUP")
KNOWN = ("C02-MIXEDKIND", "C02-GONEREF")
ABSENT_CLASS = "http://ex.org/C9"


@st.composite
def cases(draw):
    big = draw(st.integers(0, 5)) == 0      # now and then more instances per class and higher cardinalities
    odd = draw(st.integers(0, 3)) == 0       # literals spelling a node's IRI, classes that are typed / used as values
    g = draw(gg.general(max_nodes=12 if big else 7, max_stmts=48 if big else 30, iri_like_literals=odd, class_typing=odd, quirks=draw(gg.quirk_set(one_in=4)), inst_props=(RDF_TYPE, RDF_TYPE, RDF_TYPE, "http://ex.org/isA")))
    if draw(st.integers(0, 7)) == 0:
        g = draw(gg.table_graph())      # many instances of one class, three-level cardinality frequencies
    cfg = draw(gg.switches())
    cfg.update(draw(gg.harmless_extras()))
    cfg["instances_report_mode"] = "mixed"
    if draw(st.booleans()):
        cfg["remove_empty_shapes"] = False
    target = draw(common.target_spec(g))
    if target["mode"] == "classes" and draw(st.integers(0, 3)) == 0:
        target["classes"] = target["classes"] + [ABSENT_CLASS]
    sel = refmodel.select_by_classes(triples_from_json(g["triples"]), g["inst_prop"])
    sizes = sorted({len(v) for v in sel.values()})
    bounds = sorted({k / n for n in sizes for k in range(1, n + 1)})
    if bounds and draw(st.integers(0, 9)) < 7:
        thr = draw(st.sampled_from(bounds))
    else:
        thr = draw(gg.thresholds())
    case = {"g": g, "cfg": cfg, "target": target, "thr": thr}
    h = draw(gg.call_history(thr))
    if h:
        case["history"] = h
    return case


def strategy(tier):
    return cases()


selftest = c01.selftest


def check(case):
    case = common.expanded(case)
    kw, triples = common.base_kwargs(case)
    text, crash = sut.shex(kw, acceptance_threshold=case["thr"], history=case.get("history"))
    if crash is not None:
        return discard("crash:" + crash.bucket)
    cfg = case["cfg"]
    inst_prop = case["g"]["inst_prop"]
    try:
        cdoc = oracle.read_canon(text, inst_prop)
    except oracle.shexc.ShExCError:
        return discard("unparsable-output")
    sel = common.selection(case, triples)
    keep_empty = cfg.get("remove_empty_shapes", True) is False
    if keep_empty and case["target"]["mode"] == "classes":
        for c in case["target"]["classes"]:
            sel.setdefault(c, [])
    label_of = common.labels_for(sel)
    if len(set(label_of.values())) != len(label_of):
        return discard("label-collision")
    M = refmodel.Model(triples, sel, label_of, inst_prop, cfg.get("inverse_paths", False))
    thr = case["thr"]
    finds = oracle.compare(cdoc, M, label_of, thr, cfg, expect_empty_shapes=keep_empty)
    labels = common.label_features(triples, sel, M)
    if case.get("history"):
        labels.add("later-call-on-the-same-shaper")
    # non-triviality
    nt = False
    for S in sel:
        N = M.N[S]
        if not N:
            labels.add("empty-class-requested")
            continue
        kept = dropped = 0
        for dp, kinds in M.plus[S].items():
            for k, n in kinds.items():
                if k[0] == "ref" or (k[0] == "kind" and k[1] != "NONLITERAL"):
                    continue
                if n / N == thr:
                    labels.add("boundary-key")
                    nt = True
                if n / N >= thr:
                    kept += 1
                else:
                    dropped += 1
        if kept and dropped:
            nt = True
            labels.add("kept-and-dropped")
    if nt:
        labels.add("nontrivial")
    mine = [f for f in finds if f.cat in OWN]
    bad = [f for f in mine if f.sig not in KNOWN]
    if bad:
        return violation("; ".join(map(repr, bad[:3])) + "\n--- threshold %r output ---\n" % thr + text[:3000], labels, nt)
    if mine:
        return known(mine[0].sig, repr(mine[0]), labels, nt)
    return ok(labels, nt)


def _ladder_cases(tier):
    """boundary family: for every class size n and every k, the threshold exactly k/n (a feature held by exactly k of n instances
    must be kept; an implementation comparing k >= t*n in floats drops it for pairs such as 7/25)"""
    top = 60 if tier == "quick" else 128
    for n in range(2, top + 1):
        for k in range(1, n):
            yield {"g": {"ladder": n}, "target": {"mode": "all"}, "thr": k / n,
                   "cfg": {"instances_report_mode": "mixed", "inverse_paths": (n + k) % 2 == 0}}


def enumerate_cases(tier):
    for c in _ladder_cases(tier):
        yield c
    for c in _scale_cases(tier):
        yield c


def _scale_cases(tier):
    """scale family: thresholds exactly on, just below and just above (n-1)/n and 1/n for large n"""
    sizes = [(250, 1, 1), (10001, 1, 1)] if tier == "quick" else [(250, 1, 1), (1000, 3, 2), (10001, 1, 1), (20001, 2, 3)]
    for n, missing, double in sizes:
        for thr in ((n - missing) / n, (n - missing) / n + 1e-9, (n - missing) / n - 1e-9, 1, double / n, 0.9999, 0.995):
            yield {"g": {"scale": [n, missing, double]}, "target": {"mode": "all"}, "thr": thr,
                   "cfg": {"instances_report_mode": "mixed", "inverse_paths": False}}
