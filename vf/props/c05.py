"""C05 - produced schemas are well-formed and closed.

Every ShExC document (examples_mode off) parses under the ShExC grammar, declares every prefix it uses with a functional
prefix map, defines each shape label at most once, and every shape reference resolves to a shape defined in the same
document - also after thresholds or remove_empty_shapes removed shapes.  Every SHACL document parses as Turtle, every
sh:node object is a declared sh:NodeShape and every property shape has exactly one path.
Oracle: independent recursive-descent ShExC reader; rdflib Turtle parser + graph queries for SHACL.
"""
import os
from hypothesis import strategies as st
from .. import sut, oracle, common, refmodel, shexc, gen_graph as gg
from ..runner import ok, violation, known, discard
from ..rdfmodel import RDF_TYPE, RDF, to_nt, to_simple_turtle, triples_from_json
from . import c01

PID = "C05"
RULE = ("Hypothesis: general graphs x {all_classes_mode, target_classes} x switches x thresholds that empty shapes x remove_empty_shapes "
        "x namespaces_dict colliding with the default shape prefixes ('', weso-s, shapes, w-shapes) x custom shapes_namespace x "
        "namespaces_to_ignore x input as N-Triples or as Turtle declaring its own prefixes (incl. the empty prefix) x {ShExC, SHACL}; plus (1 in 5) shape-map "
        "chains: shapes labelled by full IRIs referencing each other in a chain whose tail is empty, so that removal must cascade.  "
        "Oracle ShExC: grammar-based reader accepts the text, every used prefix declared, no prefix bound to two namespaces, labels "
        "unique, every @reference defined.  Oracle SHACL: rdflib parses it; every sh:node object is a sh:NodeShape; every property "
        "shape has exactly one path.  Non-trivial: the document has >=1 shape reference and (a removed shape, a prefix collision, "
        "a custom namespace or Turtle-declared prefixes); distinct by SHA-1 of the case.")
ASSUMPTIONS = c01.ASSUMPTIONS + ["rdflib 6.0.2 Turtle parser as the SHACL syntax oracle"]
BUDGET = {"quick": {"examples": 12000, "wall": 150}, "thorough": {"examples": 150000, "wall": 900}}
FLOORS = {"nontrivial": 0.15, "shacl": 0.12, "shexc": 0.3, "shape-map-chain": 0.1, "cascade": 0.01}
SH = "http://www.w3.org/ns/shacl#"
NS_DICTS = [
    None, None,
    {"http://ex.org/": "ex", "http://www.w3.org/2001/XMLSchema#": "xsd", RDF: "rdf"},
    {"http://ex.org/": "", "http://ex.org/ns/": "weso-s"},
    {"http://ex.org/": "", "http://ex.org/ns/": "weso-s", "http://other.org/v#": "shapes", "https://data.example/": "w-shapes"},
    {"http://ex.org/ns/": "ns", "http://other.org/v#": "v", "https://data.example/": "shapes"},
    {"http://weso.es/shapes/": "mine", "http://ex.org/": "ex"},
    # namespaces given without their final separator (a local part would begin with '/' or '#'), or ending inside a local name
    {"http://ex.org/ns": "nsx", "http://other.org/v": "vx", "http://ex.org": "exx", "http://www.w3.org/1999/02/22-rdf-syntax-ns": "rdfx"},
    {"http://ex.org/n": "nn", "http://ex.org/ns/p": "pp", "http://ex.org/C": "cc", "http://www.w3.org/2001/XMLSchema": "xs"},
]
TTL_PREFIXES = [{"": "http://ex.org/"}, {"ex": "http://ex.org/", "": "http://ex.org/ns/"}, {"weso-s": "http://other.org/v#", "ex": "http://ex.org/"}]


@st.composite
def chain_case(draw):
    """shape-map shapes referencing each other in a chain whose tail has no constraints: removing the empty tail must
    cascade (every shape left with only a reference to a removed shape goes too) and never leave a dangling reference"""
    k = draw(st.integers(2, 5))
    nodes = ["http://ex.org/n%d" % i for i in range(k)]
    triples = []
    for i in range(k - 1):
        triples.append([["iri", nodes[i]], gg.prop_iri(0), ["iri", nodes[i + 1]]])
        if draw(st.integers(0, 3)) == 0:        # a second member of the next shape, so that a threshold can bite
            triples.append([["iri", nodes[i]], gg.prop_iri(0), ["iri", "http://ex.org/m%d" % (i + 1)]])
    extra = draw(st.lists(st.integers(0, k - 1), min_size=1, max_size=k, unique=True))
    for i in extra:
        if i != k - 1 or draw(st.booleans()):
            triples.append([["iri", nodes[i]], gg.prop_iri(1), gg.make_lit("str", i % 3)])
    perm = draw(st.permutations(range(len(triples))))
    triples = [triples[i] for i in perm]
    order = list(draw(st.permutations(range(k))))
    items = []
    for i in order:
        sel = {"kind": "node", "iri": nodes[i]} if draw(st.integers(0, 3)) else {"kind": "focus", "pos": "o", "p": gg.prop_iri(0), "other": nodes[i - 1] if i else nodes[0]}
        if sel["kind"] == "focus" and i == 0:
            sel = {"kind": "node", "iri": nodes[0]}
        items.append({"sel": sel, "label": "<http://sh.org/S%d>" % i})
    cfg = draw(gg.switches())
    cfg["instances_report_mode"] = "mixed"
    if draw(st.integers(0, 3)) == 0:
        cfg["disable_or_statements"] = False
    if draw(st.integers(0, 2)) == 0:
        # the empty tail is KEPT: it stays a defined shape (ShExC) / a declared sh:NodeShape (SHACL) that the others refer to
        cfg["remove_empty_shapes"] = False
    return {"g": {"triples": triples, "classes": [], "inst_prop": RDF_TYPE}, "cfg": cfg, "items": items,
            "thr": draw(st.sampled_from([0, 0, 0.5, 0.6, 1])), "input": "nt", "format": draw(st.sampled_from(["ShEx", "ShEx", "Shacl"])),
            "with_all_classes": False}


@st.composite
def cases(draw):
    if draw(st.integers(0, 4)) == 0:
        return draw(chain_case())
    odd = draw(st.integers(0, 3)) == 0
    g = draw(gg.general(inst_props=(RDF_TYPE, RDF_TYPE, RDF_TYPE, "http://ex.org/isA"), class_typing=odd, iri_like_literals=odd,
                        hash_props=draw(st.integers(0, 3)) == 0, quirks=draw(gg.quirk_set(allowed=tuple(gg.QUIRKS) + ("slash_classes", "slash_classes")))))
    cfg = draw(gg.switches())
    cfg["instances_report_mode"] = draw(st.sampled_from(["mixed", "ratio"]))
    if draw(st.booleans()):
        cfg["remove_empty_shapes"] = draw(st.booleans())
    nsd = draw(st.sampled_from(NS_DICTS))
    if nsd is not None:
        cfg["namespaces_dict"] = nsd
    if draw(st.integers(0, 3)) == 0:
        cfg["shapes_namespace"] = draw(st.sampled_from(["http://my.shapes/ns/", "http://ex.org/shapes#", "http://ex.org/"]))
    if draw(st.integers(0, 3)) == 0:
        cfg["namespaces_to_ignore"] = draw(st.lists(st.sampled_from(["http://ex.org/", "http://ex.org/ns/", RDF]), min_size=1, max_size=2, unique=True))
    if draw(st.integers(0, 4)) == 0:
        cfg["disable_or_statements"] = False
    target = draw(common.target_spec(g))
    thr = draw(st.sampled_from([0, 0, 0.5, 1, 1, 2 / 3, 0.51]))
    inp = draw(st.sampled_from(["nt", "nt", "ttl"]))
    case = {"g": g, "cfg": cfg, "target": target, "thr": thr, "input": inp, "format": draw(st.sampled_from(["ShEx", "ShEx", "Shacl"]))}
    if draw(st.integers(0, 4)) == 0:
        # the document under test is the one emitted by a LATER call on the same Shaper (another threshold / format first)
        case["earlier_call"] = [draw(st.sampled_from([0, 0.5, 1])), draw(st.sampled_from(["ShEx", "Shacl"]))]
    if draw(st.integers(0, 4)) == 0:
        # the document under test is the one left in a file: the file may exist already (an earlier document of the same
        # Shaper or junk), and the text may be requested as a string in the same call
        case["file_sink"] = {"also_string": draw(st.booleans()), "stale": draw(st.sampled_from([None, "earlier", "junk"]))}
    if inp == "ttl":
        case["ttl_prefixes"] = draw(st.sampled_from(TTL_PREFIXES))
    elif draw(st.integers(0, 5)) == 0:
        # class membership comes from a separate instances file; some instances have no triple of their own in the graph file
        case["split_instances"] = {"bare": draw(st.lists(st.integers(0, 7), min_size=0, max_size=3)),
                                   "hollow": draw(st.lists(st.integers(0, 3), min_size=0, max_size=3, unique=True))}
    return case


def strategy(tier):
    return cases()


selftest = c01.selftest


def check_shexc(text):
    """returns (problems, doc)"""
    probs = []
    try:
        doc = shexc.read(text)
    except shexc.ShExCError as e:
        return ["does not parse as ShExC: %s" % e], None
    seen = {}
    for p, ns in doc.prefix_decls:
        if p in seen and seen[p] != ns:
            probs.append("prefix '%s:' declared for two namespaces: <%s> and <%s>" % (p, seen[p], ns))
        seen[p] = ns
    labels = [s.label for s in doc.shapes]
    for l in sorted(set(labels)):
        if labels.count(l) > 1:
            probs.append("shape label <%s> defined %d times" % (l, labels.count(l)))
    defined = set(labels)
    for s in doc.shapes:
        for c in s.constraints:
            for v in c.values:
                if v[0] == "ref" and v[1] not in defined:
                    probs.append("shape <%s>: reference to undefined shape <%s>" % (s.label, v[1]))
    return probs, doc


def check_shacl(text):
    import rdflib
    probs = []
    g = rdflib.Graph()
    try:
        g.parse(data=text, format="turtle")
    except Exception as e:
        return ["does not parse as Turtle: %s" % str(e)[:200]], None
    sh = rdflib.Namespace(SH)
    for s, o in g.subject_objects(sh.node):
        if (o, rdflib.RDF.type, sh.NodeShape) not in g:
            probs.append("sh:node object %s is not a declared sh:NodeShape" % o)
    for ps in set(g.subjects(rdflib.RDF.type, sh.PropertyShape)):
        paths = list(g.objects(ps, sh.path))
        inv = [o for b in g.objects(ps, sh.property) for o in g.objects(b, sh.inversePath)]
        if len(paths) + len(inv) != 1:
            probs.append("property shape with %d sh:path and %d inverse paths" % (len(paths), len(inv)))
    return probs, g


def check_chain(case):
    from .. import selectors
    from . import c10
    triples = triples_from_json(case["g"]["triples"])
    kw = dict(case["cfg"])
    kw["raw_graph"] = to_nt(triples)
    kw["namespaces_dict"] = dict(c10.NSD)
    kw["shape_map_raw"] = "\n".join("%s@%s" % (selectors.render(it["sel"], c10.NSD, [0, 0, 0, 0]), it["label"]) for it in case["items"])
    fmt = case["format"]
    text, crash = sut.shex(kw, acceptance_threshold=case["thr"], output_format=fmt)
    if crash is not None:
        return discard("crash:" + crash.bucket)
    labels = {"shexc" if fmt == "ShEx" else "shacl", "shape-map-chain"}
    if fmt == "ShEx":
        probs, doc = check_shexc(text)
        if doc is not None and len(doc.shapes) < len(case["items"]):
            labels.add("shape-removed")
            if len(doc.shapes) < len(case["items"]) - 1:
                labels.add("cascade")
    else:
        probs, g = check_shacl(text)
    labels.add("nontrivial")
    if probs:
        return violation("; ".join(probs[:3]) + "\nshape map:\n%s\n--- %s output ---\n%s" % (kw["shape_map_raw"], fmt, text[:3000]), labels, True)
    return ok(labels, True)


def enumerate_cases(tier):
    """documents of 5 600 / 10 500 lines (the serializer writes through a 5 000-line buffer)"""
    for n in ((800,) if tier == "quick" else (800, 1500)):
        for fmt in ("ShEx", "Shacl"):
            yield {"g": {"big": n}, "cfg": {"instances_report_mode": "mixed"}, "target": {"mode": "all"}, "thr": 0, "input": "nt", "format": fmt}


def check(case):
    with sut.tmpdir() as split_dir:
        return _check(case, split_dir)


def _check(case, split_dir):
    if "items" in case:
        return check_chain(case)
    if "big" in case["g"]:
        from . import c18
        case = dict(case, g=c18.big_graph(case["g"]["big"]))
    kw, triples = common.base_kwargs(case)
    if case.get("split_instances") is not None:
        kw = common.deliver_split(kw, triples, case["g"]["inst_prop"], case["split_instances"], split_dir)
    cfg = case["cfg"]
    if "namespaces_dict" in cfg:
        kw["namespaces_dict"] = dict(cfg["namespaces_dict"])
    if case.get("input") == "ttl":
        kw["raw_graph"] = to_simple_turtle(triples, case["ttl_prefixes"])
        kw["input_format"] = "turtle"
        if any(t[0][0] == "bnode" or t[2][0] == "bnode" for t in triples):
            pass    # rdflib relabels bnodes; irrelevant for well-formedness
    fmt = case["format"]
    if case.get("file_sink"):
        fs = case["file_sink"]

        def go():
            path = os.path.join(split_dir, "document.out")
            sh = sut.Shaper(**kw)
            if fs["stale"] == "junk":
                with open(path, "w", encoding="utf-8") as f:
                    f.write("PREFIX : <http://stale.org/>\n:Old {\n}\n" * 40)
            elif fs["stale"] == "earlier":
                sh.shex_graph(output_file=path, string_output=fs["also_string"], acceptance_threshold=(case.get("earlier_call") or [0.5])[0], output_format=fmt)
            sh.shex_graph(output_file=path, string_output=fs["also_string"], acceptance_threshold=case["thr"], output_format=fmt)
            with open(path, encoding="utf-8", newline="") as f:
                return f.read()
        text, crash = sut.guarded(go, 30)
    elif case.get("earlier_call"):
        def go():
            sh = sut.Shaper(**kw)
            sh.shex_graph(string_output=True, acceptance_threshold=case["earlier_call"][0], output_format=case["earlier_call"][1])
            return sh.shex_graph(string_output=True, acceptance_threshold=case["thr"], output_format=fmt)
        text, crash = sut.guarded(go, 30)
    else:
        text, crash = sut.shex(kw, acceptance_threshold=case["thr"], output_format=fmt)
    if crash is not None:
        return discard("crash:" + crash.bucket)
    labels = {"shexc" if fmt == "ShEx" else "shacl"}
    if case.get("file_sink"):
        labels.add("document-from-file")
    elif case.get("earlier_call"):
        labels.add("second-call-on-same-shaper")
    if case.get("split_instances") is not None:
        labels.add("instances-from-separate-file")
    sel = common.selection(case, triples)
    label_of = common.labels_for(sel, cfg.get("shapes_namespace", refmodel.SHAPES_NS))
    dup_local = len(set(label_of.values())) != len(label_of)
    special = (case.get("input") == "ttl" or "namespaces_dict" in cfg or "shapes_namespace" in cfg
               or "namespaces_to_ignore" in cfg or case["thr"] > 0)
    if fmt == "ShEx":
        probs, doc = check_shexc(text)
        nt = bool(doc) and special and any(v[0] == "ref" for s in doc.shapes for c in s.constraints for v in c.values)
        if doc is not None and len(doc.shapes) < len([S for S in sel if sel[S]]):
            labels.add("shape-removed")
    else:
        probs, g = check_shacl(text)
        nt = g is not None and special and (None, __import__("rdflib").URIRef(SH + "node"), None) in g
    if nt:
        labels.add("nontrivial")
    for k in ("namespaces_dict", "shapes_namespace", "namespaces_to_ignore"):
        if k in cfg:
            labels.add(k)
    if case.get("input") == "ttl":
        labels.add("turtle-prefixes")
    if probs:
        if dup_local and all("defined" in p and "times" in p for p in probs):
            return known("C05-DUPLABEL", probs[0], labels, nt)
        if fmt != "ShEx" and len(probs) == 1 and 'Prefix "rdf:" not bound' in probs[0] and "@prefix rdf:" not in text \
                and " rdf:type" in text:
            # rdflib 6.0.2's Turtle serializer treats rdf:type as the keyword 'a' when collecting prefixes, also in object
            # position (sh:path rdf:type), so 'rdf:' stays undeclared unless another rdf: term occurs
            return known("C05-SHACL-RDFPREFIX", probs[0], labels, nt)
        if fmt == "ShEx" and len(probs) == 1 and "bad value set member ('punct', '@')" in probs[0] and "[@<" in text \
                and cfg.get("inverse_paths"):
            inst_prop_ = case["g"]["inst_prop"]
            instances = {s_[1] for s_, p_, o_ in triples if p_ == inst_prop_}
            if any(p_ == inst_prop_ and s_[0] == "bnode" and o_[1] in instances for s_, p_, o_ in triples):
                # a blank node as member of an inverse instantiation value set ('^rdf:type [_:b]') has no ShExC rendering
                return known("C05-BNODEVALUESET", probs[0], labels, nt)
        sns = cfg.get("shapes_namespace")
        if sns and sns != refmodel.SHAPES_NS and all(("reference to undefined shape <" + refmodel.SHAPES_NS in p) or p.startswith("sh:node object " + refmodel.SHAPES_NS) for p in probs):
            # C05-SHAPESNS: references are written in the default shapes namespace (pinned by a golden file)
            return known("C05-SHAPESNS", probs[0], labels, nt)
        return violation("; ".join(probs[:3]) + "\n--- %s output ---\n%s" % (fmt, text[:3000]), labels, nt)
    return ok(labels, nt)
