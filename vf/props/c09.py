"""C09 - shapes do not depend on statement order or blank-node labels.

Permuting the statements or consistently renaming blank nodes leaves the extracted evidence unchanged: same shapes,
instance counts, constraint keys, and the same set of (property, kind, cardinality, count) facts; whenever no two
candidates are tied in frequency the chosen constraints and cardinalities are identical too.
Oracle: metamorphic relation on canonical documents; a tie detector computed by the reference profiler decides where
fact-set equality / chosen-constraint equality is demanded (C09-HIDDENFACTS / C09-CARDTIE are the two known findings under ties).
"""
import itertools
from hypothesis import strategies as st
from .. import sut, oracle, common, refmodel, gen_graph as gg
from ..runner import ok, violation, known, discard
from ..rdfmodel import RDF_TYPE, triples_from_json, to_nt
from . import c01

PID = "C09"
RULE = ("Hypothesis: general graphs (<=25 statements) x switches x threshold x a drawn permutation of the statements (thorough: "
        "all permutations when <=5 statements) x a drawn injective blank-node renaming.  Oracle: canonical documents of both runs: "
        "shapes, instance counts, keys and the count of every fact printed by both must agree always; full fact-set and chosen "
        "constraint/cardinality equality for every (shape, direction, property) without a frequency tie (reference profiler).  "
        "Non-trivial: permutation is not the identity and the graph has >=2 candidate kinds for some property or instances with "
        "different cardinalities; distinct by SHA-1 of the case.")
ASSUMPTIONS = c01.ASSUMPTIONS
BUDGET = {"quick": {"examples": 12000, "wall": 150}, "thorough": {"examples": 200000, "wall": 900}}
FLOORS = {"nontrivial": 0.3, "no-tie-everywhere": 0.15, "bnode-renamed": 0.1}


@st.composite
def cases(draw, tier):
    odd = draw(st.integers(0, 3)) == 0     # classes that are themselves typed / used as values; literals spelling a node's IRI
    ign = draw(st.integers(0, 5)) == 0     # a namespace filter: decided per triple, whatever was seen before
    g = draw(gg.general(max_stmts=25, inst_props=(RDF_TYPE, RDF_TYPE, RDF_TYPE, "http://ex.org/isA"), class_typing=odd,
                        iri_like_literals=odd, quirks=draw(gg.quirk_set(one_in=4)) + (["same_local_classes"] if (draw(st.integers(0, 9)) == 0 and not ign) else [])
                        + (["hash_props"] if ign else [])))
    # (classes sharing a local name are not combined with a namespace filter: with the typing constraint hidden, shapes sharing a
    # label are removed by name and the documents cannot tell them apart - every face of C02-GONEREF / C05-DUPLABEL at once)
    cfg = draw(gg.switches())
    cfg["instances_report_mode"] = "mixed"
    if draw(st.integers(0, 5)) == 0:
        # fan-in graphs: incoming values of several kinds with UNEQUAL frequencies (no tie), subjects with different class sets
        g = draw(gg.fan_graph())
        cfg["inverse_paths"] = draw(st.sampled_from([True, True, True, False]))
    if draw(st.integers(0, 3)) == 0:
        cfg["detect_minimal_iri"] = True
    if ign:
        # namespaces that share everything up to their last '/' with a namespace that is NOT ignored (http://ex.org/voc# vs http://ex.org/)
        cfg["namespaces_to_ignore"] = draw(st.lists(st.sampled_from(["http://ex.org/voc#", "http://ex.org/ns/voc#", "http://ex.org/", "http://ex.org/ns/",
                                                                     "http://other.org/v#"]), min_size=1, max_size=2, unique=True))
    target = draw(common.target_spec(g))
    thr = draw(st.sampled_from([0, 0, 0, 0.5, 1 / 3, 2 / 3, 1]))
    n = len(g["triples"])
    dups = draw(common.dups(g)) if draw(st.integers(0, 5)) == 0 else []      # re-stated statements: still the same graph
    n += len(dups)
    perm = list(draw(st.permutations(range(n))))
    bn = sorted({t[1] for tr in g["triples"] for t in (tr[0], tr[2]) if t[0] == "bnode"})
    ren = {}
    if bn and draw(st.booleans()):
        k = draw(st.integers(0, 2))
        if k == 0:
            targets = list(draw(st.permutations(bn)))
        elif k == 1:
            targets = ["_:r%d" % (len(bn) - i) for i in range(len(bn))]
        else:
            # labels that extend each other (_:p, _:p1, _:p10, _:p1x ...): a tokenizer must not cut a label where another ends
            pool = ["_:p", "_:p1", "_:p10", "_:p1x", "_:p100", "_:px", "_:p_1", "_:p1.0"]
            targets = list(draw(st.permutations(pool)))[:len(bn)] if len(bn) <= len(pool) else ["_:r%d" % i for i in range(len(bn))]
        ren = dict(zip(bn, targets))
    case = {"g": g, "cfg": cfg, "target": target, "thr": thr, "perm": perm, "rename": ren}
    if dups:
        case["dups"] = dups
    return case


def strategy(tier):
    return cases(tier)


selftest = c01.selftest


def transform(triples, perm, ren):
    def r(t):
        return (t[0], ren.get(t[1], t[1])) + tuple(t[2:]) if t[0] == "bnode" else t
    out = [(r(s), p, r(o)) for s, p, o in triples]
    return [out[i] for i in perm]


def rename_doc(cdoc, ren):
    """apply a blank-node renaming to the class values of a canonical document (in place)"""
    def rk(kind):
        return ("class", ren.get(kind[1], kind[1])) if kind[0] == "class" else kind
    for lab, cs in cdoc.items():
        if lab == "__dup_labels__":
            continue
        new_cons = {}
        for (dp, key), e in cs.cons.items():
            e["kinds"] = tuple(rk(k) for k in e["kinds"])
            e["facts"] = [(rk(f[0]),) + tuple(f[1:]) for f in e["facts"]]
            new_cons[(dp, rk(key) if key[0] == "class" else key)] = e
        cs.cons = new_cons
        cs.facts = {(f[0], rk(f[1])) + tuple(f[2:]) for f in cs.facts}


def run(kw, triples, thr):
    kw = dict(kw)
    kw["raw_graph"] = to_nt(triples)
    return sut.shex(kw, acceptance_threshold=thr)


def compare_docs(a, b, M, label_of, thr, kls, texts, dec=False):
    """returns (violations, known) lists"""
    viol, kn = [], []
    # two classes can share one label (same local name); when only one of the two shapes is printed (the other one is empty and
    # removed) the documents do not show the collision: the class behind a label is then the one with the printed instance count,
    # and unknown (S is None: compared leniently, as under a tie) when that does not single one out
    lab2S = {}
    for k_, v_ in label_of.items():
        lab2S.setdefault(v_, []).append(k_)
    for v_, ks_ in list(lab2S.items()):
        if len(ks_) == 1:
            lab2S[v_] = ks_[0]
        else:
            n_ = a[v_].n if (v_ in a and not isinstance(a[v_], list)) else None
            fit = [k_ for k_ in ks_ if M.N.get(k_) == n_]
            if len(fit) == 1:
                lab2S[v_] = fit[0]
            else:
                del lab2S[v_]
    if set(a) != set(b):
        # C02-GONEREF under a tie, cascading: a shape that is in one document only is excused when EVERY key it has there is
        # non-literal, tied, and has the GONEREF signature with respect to the document that lacks the shape (in that run the
        # first-seen winner of each tie was a reference to a removed shape, the shape lost all its constraints and was removed too)
        def excused(lab, have, lack):
            S_ = lab2S.get(lab)
            cs = have[lab]
            return (S_ is not None and not isinstance(cs, list) and cs.cons and
                    all(k_[1] == ("nonliteral",) and M.has_tie(S_, k_[0], thr, kls) and oracle._goneref_sig(M, S_, k_[0], thr, lack, label_of, kls)
                        for k_ in cs.cons))
        if all(excused(lab, a, b) for lab in set(a) - set(b)) and all(excused(lab, b, a) for lab in set(b) - set(a)):
            kn.append(("C02-GONEREF", "shapes %s in one run only (ties between references, the winner of one run points to a removed shape)" % sorted(set(a) ^ set(b))))
        else:
            viol.append("shape sets differ: %s vs %s" % (sorted(a), sorted(b)))
        return viol, kn
    for lab in a:
        ca, cb = a[lab], b[lab]
        if ca.n != cb.n:
            viol.append("%s: instance count %s vs %s" % (lab, ca.n, cb.n))
        if ca.stem != cb.stem:
            viol.append("%s: IRI stem %r vs %r" % (lab, ca.stem, cb.stem))
        if set(ca.cons) != set(cb.cons):
            # C02-GONEREF under a tie: two references are tied, the first seen wins (C09-HIDDENFACTS), and in ONE of the runs the
            # winner is a reference to a shape that is not in that run's document - the constraint is dropped with it instead of
            # falling back to IRI.  Excused only when every differing key is non-literal, tied, and has that signature in the
            # document that lacks it.
            S_ = lab2S.get(lab)
            diff = set(ca.cons) ^ set(cb.cons)
            if S_ is not None and all(k_[1] == ("nonliteral",) and M.has_tie(S_, k_[0], thr, kls)
                                      and oracle._goneref_sig(M, S_, k_[0], thr, b if k_ in ca.cons else a, label_of, kls) for k_ in diff):
                kn.append(("C02-GONEREF", "%s: keys %s in one run only (tie between references, one of them to a removed shape)" % (lab, sorted(diff))))
            else:
                viol.append("%s: keys differ: %s" % (lab, sorted(diff)))
            continue
        fa = oracle.fact_map(ca, dec)
        fb = oracle.fact_map(cb, dec)
        S = lab2S.get(lab)
        for k in set(fa) & set(fb):
            if fa[k] != fb[k]:
                if k[1] == ("kind", "NONLITERAL"):
                    kn.append(("C09-NONLIT", "%s %s: %s vs %s" % (lab, k, fa[k], fb[k])))
                else:
                    viol.append("%s: fact %s printed with different figures: %s vs %s" % (lab, k, fa[k], fb[k]))
        for key in ca.cons:
            dp = key[0]
            ea, eb = ca.cons[key], cb.cons[key]
            same_choice = (ea["kinds"], ea["card"]) == (eb["kinds"], eb["card"])
            same_facts = sorted(map(str, ea["facts"])) == sorted(map(str, eb["facts"]))
            if same_choice and same_facts:
                continue
            tie = S is None or M.has_tie(S, dp, thr, kls)
            what = "%s %s: chosen %s %s vs %s %s; facts %s vs %s" % (lab, key, ea["kinds"], ea["card"], eb["kinds"], eb["card"],
                                                                       sorted(map(str, ea["facts"])), sorted(map(str, eb["facts"])))
            if tie:
                kn.append(("C09-CARDTIE" if key[1] != ("nonliteral",) else "C09-HIDDENFACTS", what))
            else:
                viol.append("no frequency tie, but " + what)
    return viol, kn


def _dup_label_goneref(case, triples, out1, out2, sigs):
    """the GONEREF-under-a-tie cascade (see compare_docs) for documents in which two shapes share one label: every shape signature
    (label, instances, predicates) that only one run prints belongs to a class whose every key is non-literal, tied and has the
    GONEREF signature with respect to the labels the other run prints"""
    cfg = case["cfg"]
    kls = cfg.get("keep_less_specific", True)
    M, sel, label_of = common.model_for(case, triples)
    s1, s2 = sigs(out1), sigs(out2)

    def explained(sig, other):
        lab, n, preds = sig
        present = {x[0] for x in other}
        for S_ in sel:
            if label_of.get(S_) != lab or M.N[S_] != n or not preds:
                continue
            ok_ = True
            for pr_ in preds:
                dp = ("i", pr_[1:]) if pr_.startswith("^") else ("d", pr_)
                pl = M.plus[S_].get(dp, {})
                if any(k_[0] in ("dt", "class") for k_ in pl) or not M.has_tie(S_, dp, case["thr"], kls) \
                        or not oracle._goneref_sig(M, S_, dp, case["thr"], present, label_of, kls):
                    ok_ = False
                    break
            if ok_:
                return True
        return False
    only1 = [x for x in s1 if x not in s2]
    only2 = [x for x in s2 if x not in s1]
    # shapes are removed by NAME: when one of two shapes sharing a label is removed (explained as above), the other one goes with it
    # (C05-DUPLABEL), so a shape printed by one run only is also accepted when a shape with the same label is explained
    ex1 = {x[0] for x in only1 if explained(x, s2)}
    ex2 = {x[0] for x in only2 if explained(x, s1)}
    return bool(ex1 or ex2) and all(x[0] in ex1 for x in only1) and all(x[0] in ex2 for x in only2)


def check(case):
    kw, triples = common.base_kwargs(case)
    cfg = case["cfg"]
    inst_prop = case["g"]["inst_prop"]
    thr = case["thr"]
    if case.get("dups"):
        # the document re-states some triples; sheXer's line-based readers count a re-stated value again (C01-DUPVALUE), and
        # they must do so whatever the order: the model behind the tie detector counts the statements of the document too
        triples = common.doc_triples(case, triples)
    t2 = transform(triples, case["perm"], case.get("rename", {}))
    out1, c1 = run(kw, triples, thr)
    out2, c2 = run(kw, t2, thr)
    if c1 is not None or c2 is not None:
        if (c1 is None) != (c2 is None):
            return discard("crash-one-side:" + (c1 or c2).bucket)
        return discard("crash:" + c1.bucket)
    try:
        a, b = oracle.read_all([out1, out2], inst_prop)
    except oracle.OneSided as e:
        return violation(str(e), (), True)
    except oracle.shexc.ShExCError:
        return discard("unparsable-output")
    if "__dup_labels__" in a or "__dup_labels__" in b:
        # two classes share their local name, so two shapes share one label (C05-DUPLABEL): the canonical documents cannot tell
        # them apart, but both runs must still print the same multiset of shapes (label, instances, predicates)
        def sigs(text):
            return sorted((sh.label, sh.n_instances, tuple(sorted(("^" if c.inverse else "") + c.pred for c in sh.constraints)))
                          for sh in oracle.shexc.read(text).shapes)
        if sigs(out1) != sigs(out2) and _dup_label_goneref(case, triples, out1, out2, sigs):
            return known("C02-GONEREF", "two classes share a local name; shapes in one run only, every key of them tied and pointing to a removed shape", {"shared-local-name"}, True)
        if sigs(out1) != sigs(out2):
            return violation("two classes share a local name; the multiset of shapes differs between the original and the transformed document:\n %s\n %s\n--- original ---\n%s\n--- transformed ---\n%s" % (
                sigs(out1), sigs(out2), out1, out2), {"shared-local-name"}, True)
        return ok({"shared-local-name"}, False)
    if case.get("rename"):
        rename_doc(a, case["rename"])      # blank-node labels can occur as value-set members ('^rdf:type [_:b0]')
    M, sel, label_of = common.model_for(case, triples)
    labels = common.label_features(triples, sel, M)
    identity = case["perm"] == sorted(case["perm"])
    if case.get("rename"):
        labels.add("bnode-renamed")
    if case.get("dups"):
        labels.add("restated-statements")
    any_tie = False
    rich = False
    for S in sel:
        for dp in M.plus[S]:
            if M.has_tie(S, dp, thr, cfg.get("keep_less_specific", True)):
                any_tie = True
            ks = [k for k in M.plus[S][dp] if k != ("kind", "NONLITERAL")]
            if len(ks) >= 2 or any(len(h) >= 2 for h in M.hist[S][dp].values()):
                rich = True
    labels.add("tie-somewhere" if any_tie else "no-tie-everywhere")
    nt = (not identity or bool(case.get("rename"))) and rich
    if nt:
        labels.add("nontrivial")
    viol, kn = compare_docs(a, b, M, label_of, thr, cfg.get("keep_less_specific", True), (out1, out2), cfg.get("disable_exact_cardinality", False))
    if viol:
        return violation("; ".join(viol[:3]) + "\n--- original ---\n%s\n--- transformed ---\n%s" % (out1, out2), labels, nt)
    if kn:
        return known(kn[0][0], kn[0][1], labels, nt)
    return ok(labels, nt)


def enumerate_cases(tier):
    """thorough: all permutations of a few fixed small graphs (<=5 statements) are covered through Hypothesis-independent
    enumeration of a pinned family: every permutation of a 5-statement tie-free and a 5-statement tie graph."""
    if tier != "thorough":
        return
    base = [
        [["iri", "http://ex.org/n0"], RDF_TYPE, ["iri", "http://ex.org/C0"]],
        [["iri", "http://ex.org/n1"], RDF_TYPE, ["iri", "http://ex.org/C0"]],
        [["iri", "http://ex.org/n0"], "http://ex.org/p", ["iri", "http://ex.org/n1"]],
        [["iri", "http://ex.org/n0"], "http://ex.org/p", ["bnode", "_:u0"]],
        [["iri", "http://ex.org/n1"], "http://ex.org/p", ["lit", "a", "http://www.w3.org/2001/XMLSchema#string", ""]],
        [["bnode", "_:u0"], RDF_TYPE, ["iri", "http://ex.org/ns/C1"]],
    ]
    for perm in itertools.permutations(range(len(base))):
        for kls in (True, False):
            yield {"g": {"triples": base, "classes": ["http://ex.org/C0", "http://ex.org/ns/C1"], "inst_prop": RDF_TYPE},
                   "cfg": {"keep_less_specific": kls, "instances_report_mode": "mixed", "inverse_paths": True},
                   "target": {"mode": "all"}, "thr": 0, "perm": list(perm), "rename": {}}
