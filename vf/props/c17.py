"""C17 - IRI patterns and examples come from the data.

With detect_minimal_iri, the IRI stem attached to a shape is a prefix of the IRI of every instance of that shape, ends at a
separator character (':', '/' or '#'), and is the longest such stem; no stem is printed when that would be shorter than three
characters or just a scheme such as http:// or https://.  With examples_mode, the example shown for a shape is one of its
instances and the example shown for a constraint is an actual value of that property (in that direction) on one of the
shape's instances; neither option changes any constraint.
Oracle: stem and examples recomputed from the abstract triples; canonical constraints compared with a run without the options.
"""
import re
from hypothesis import strategies as st
from .. import sut, oracle, common, refmodel, shexc, gen_graph as gg
from ..runner import ok, violation, known, discard
from ..rdfmodel import RDF_TYPE, XSD_STRING, triples_from_json, to_nt
from . import c01, c13

PID = "C17"
RULE = ("Hypothesis: graphs whose instance IRIs are built from drawn scheme (http/https/urn) / host / path segments / local name, so "
        "that instances share and diverge after common segments (plus blank-node instances in a minority), 1-3 classes, literal and "
        "link properties x detect_minimal_iri x examples_mode in {None, shape, cons, all} x inverse_paths x {ShExC, SHACL}.  Oracle: "
        "stem == longest prefix common to all instance IRIs cut back to the last of ':/#', printed iff it has >=3 characters and is not "
        "just a scheme; shape example is an instance; constraint example is a value of that property in that direction on an instance; "
        "constraints equal to those of a run without the options.  Non-trivial: >=2 instances whose IRIs diverge after a shared segment; "
        "distinct by SHA-1 of the case.")
ASSUMPTIONS = c01.ASSUMPTIONS
BUDGET = {"quick": {"examples": 24000, "wall": 150}, "thorough": {"examples": 400000, "wall": 900}}
FLOORS = {"nontrivial": 0.15, "stem-printed": 0.15, "stem-absent": 0.02, "examples": 0.2}
SCHEME_ONLY = ("http://", "https://", "http:", "https:", "http:/", "https:/")


@st.composite
def node_iri(draw, base):
    fam, host = base
    if draw(st.integers(0, 7)) == 0:
        fam = draw(st.sampled_from(["http", "https", "urn", "ex", "a"]))
        host = draw(st.sampled_from(["ex.org", "example.com"]))
    if fam in ("ex", "a", "ab"):
        # one- and two-letter schemes: the stem 'ex:' has exactly three characters (printed), 'a:' two (not printed)
        return "%s:%s%d" % (fam, draw(st.sampled_from(["n", "alice", "b/c", "item"])), draw(st.integers(0, 3)))
    if fam == "urn":
        return "urn:x:" + draw(st.sampled_from(["a", "ab", "b:c"])) + str(draw(st.integers(0, 3)))
    path = draw(st.sampled_from(["", "res/", "res/", "rest/", "res/item/", "v#", "res#", "item:1", "item:10", "isbn:978"]))
    if draw(st.integers(0, 5)) == 0:
        # a "container" IRI that is a proper prefix of its members' IRIs (http://ex.org/res/item vs http://ex.org/res/item/n1)
        return "%s://%s/%s" % (fam, host, path.rstrip("/#") or "res")
    local = draw(st.sampled_from(["n", "n", "a", "ab", "item"])) + str(draw(st.integers(0, 4)))
    return "%s://%s/%s%s" % (fam, host, path, local)


@st.composite
def cases(draw):
    n_nodes = draw(st.integers(1, 6))
    base = (draw(st.sampled_from(["http", "http", "http", "https", "urn", "urn", "ex", "ab", "a"])), draw(st.sampled_from(["ex.org", "ex.org", "example.com"])))
    nodes = []
    for i in range(n_nodes):
        if draw(st.integers(0, 7)) == 0:
            nodes.append(["bnode", "_:b%d" % i])
        else:
            nodes.append(["iri", draw(node_iri(base))])
    n_classes = draw(st.integers(1, 2))
    classes = ["http://ex.org/C%d" % j for j in range(n_classes)]
    triples = []
    seen = set()

    def add(tr):
        k = repr(tr)
        if k not in seen:
            seen.add(k)
            triples.append(tr)
    for n in nodes:
        for j in draw(st.lists(st.integers(0, n_classes - 1), min_size=1, max_size=2, unique=True)):
            add([n, RDF_TYPE, ["iri", classes[j]]])
        for _ in range(draw(st.integers(0, 3))):
            p = "http://ex.org/p%d" % draw(st.integers(0, 2))
            k = draw(st.integers(0, 3))
            if k == 0:
                o = ["lit", draw(st.sampled_from(["a", "b c", "x1"])), XSD_STRING, ""]
            elif k == 1:
                o = ["lit", str(draw(st.integers(0, 9))), "http://www.w3.org/2001/XMLSchema#integer", ""]
            else:
                o = draw(st.sampled_from(nodes))
            add([n, p, o])
    if draw(st.integers(0, 3)) == 0:
        # metamodelling: a class is itself a typed node (an instance of a meta class, of another class or of itself)
        for j in range(n_classes):
            if draw(st.booleans()):
                add([["iri", classes[j]], RDF_TYPE, ["iri", draw(st.sampled_from(classes + ["http://ex.org/Meta"]))]])
                if "http://ex.org/Meta" not in classes and any(t[2][1] == "http://ex.org/Meta" for t in triples):
                    classes = classes + ["http://ex.org/Meta"]
    perm = draw(st.permutations(range(len(triples))))
    triples = [triples[i] for i in perm]
    cfg = {"instances_report_mode": "mixed", "inverse_paths": draw(st.booleans())}
    if draw(st.integers(0, 3)) != 0:
        cfg["detect_minimal_iri"] = True
    em = draw(st.sampled_from([None, "shape", "cons", "all", "all"]))
    if em:
        cfg["examples_mode"] = em
    if draw(st.integers(0, 3)) == 0:
        cfg["namespaces_dict"] = {"http://ex.org/": "ex", "http://ex.org/res/": "res"}
    target = {"mode": "all"}
    if draw(st.integers(0, 4)) == 0:
        # explicit targets, one of them a class without any instance; its (empty) shape is kept and must not get a stem or an example
        target = {"mode": "classes", "classes": [c for c in classes if not c.endswith("Meta")] + ["http://ex.org/Ghost"]}
        cfg["remove_empty_shapes"] = False
    return {"g": {"triples": triples, "classes": classes, "inst_prop": RDF_TYPE}, "cfg": cfg, "target": target,
            "thr": 0, "format": draw(st.sampled_from(["ShEx", "ShEx", "ShEx", "Shacl"]))}


def strategy(tier):
    return cases()


selftest = c01.selftest


def expected_stem(iris):
    if not iris:
        return None
    lcp = iris[0]
    for x in iris[1:]:
        i = 0
        while i < min(len(lcp), len(x)) and lcp[i] == x[i]:
            i += 1
        lcp = lcp[:i]
    idx = max(lcp.rfind(":"), lcp.rfind("/"), lcp.rfind("#"))
    if idx < 0:
        return None
    stem = lcp[:idx + 1]
    if len(stem) < 3 or stem in SCHEME_ONLY:
        return None
    return stem


def value_texts(t):
    if t[0] == "lit":
        return {t[1]}
    return {t[1]}


def check(case):
    kw, triples = common.base_kwargs(case)
    cfg = case["cfg"]
    if "namespaces_dict" in cfg:
        kw["namespaces_dict"] = dict(cfg["namespaces_dict"])
    inst_prop = RDF_TYPE
    fmt = case["format"]
    text, crash = sut.shex(kw, acceptance_threshold=0, output_format=fmt)
    if crash is not None:
        return discard("crash:" + crash.bucket)
    sel = common.selection(case, triples)
    label_of = common.labels_for(sel)
    labels = set()
    dm = bool(cfg.get("detect_minimal_iri"))
    em = cfg.get("examples_mode")
    exp_stems = {}
    nt = False
    for S, nodes in sel.items():
        iris = [n for n in nodes if not n.startswith("_:")]
        has_b = len(iris) != len(nodes)
        exp_stems[S] = (expected_stem(iris) if not has_b else ("BNODE", expected_stem(iris)))
        if len(iris) >= 2 and len(set(iris)) >= 2:
            e = expected_stem(iris)
            if e is not None and any(len(i) > len(e) for i in iris):
                nt = True
    if nt:
        labels.add("nontrivial")
    if em:
        labels.add("examples")
    # ---------------- SHACL: only the pattern
    if fmt == "Shacl":
        import rdflib
        g = rdflib.Graph()
        try:
            g.parse(data=text, format="turtle")
        except Exception:
            return discard("unparsable-shacl")
        SH = rdflib.Namespace("http://www.w3.org/ns/shacl#")
        for S, lab in label_of.items():
            pats = [str(o) for o in g.objects(rdflib.URIRef(lab), SH.pattern)]
            r = _judge_stem(S, lab, exp_stems[S], [p[1:] if p.startswith("^") else "??" + p for p in pats], dm, labels)
            if r:
                return violation(r + "\n" + text, labels, nt)
        for sub, pat in g.subject_objects(SH.pattern):
            if str(sub) not in set(label_of.values()):
                return violation("sh:pattern %r on %s, a shape without instances\n%s" % (str(pat), sub, text), labels, nt)
        return ok(labels, nt)
    # ---------------- ShExC
    try:
        doc = shexc.read(text, lenient_examples=bool(em))
    except shexc.ShExCError as e:
        if em:
            return discard("unparsable-output-with-examples")
        return discard("unparsable-output")
    by_label = {s.label: s for s in doc.shapes}
    kf = []
    lab2S = {v: k for k, v in label_of.items()}
    out_vals = {}
    in_vals = {}
    for s, p, o in triples:
        out_vals.setdefault((s[1], p), set()).update(value_texts(o))
        if o[0] != "lit":
            in_vals.setdefault((o[1], p), set()).add(s[1])
    for lab, sh in by_label.items():
        S = lab2S.get(lab)
        if S is None:
            # a shape without instances (a requested class that does not occur): nothing in the data to take a stem or an example from
            if sh.stem is not None:
                return violation("shape %s has no instance but carries the stem %r\n%s" % (lab, sh.stem, text), labels, nt)
            if [v for p_, v in sh.annotations if p_.endswith("comment")]:
                return violation("shape %s has no instance but carries an example\n%s" % (lab, text), labels, nt)
            labels.add("shape-without-instances")
            continue
        r = _judge_stem(S, lab, exp_stems[S], [sh.stem] if sh.stem is not None else [], dm, labels)
        if r:
            return violation(r + "\n" + text, labels, nt)
        # shape example
        ex = [v for p, v in sh.annotations if p.endswith("comment")]
        if em in ("shape", "all"):
            if len(ex) != 1:
                return violation("shape %s: %d shape examples printed with examples_mode=%s\n%s" % (lab, len(ex), em, text), labels, nt)
            val = ex[0][1] if ex[0][0] == "iri" else ex[0][1].strip('"')
            if val not in sel[S]:
                return violation("shape %s: example %r is not one of its instances %s\n%s" % (lab, val, sel[S], text), labels, nt)
            labels.add("shape-example-checked")
        elif ex:
            return violation("shape %s: example printed although examples_mode=%s" % (lab, em), labels, nt)
        # constraint examples
        for c in sh.constraints:
            exs = [v for p, v in c.annotations if p.endswith("comment")]
            if c.pred == inst_prop:
                continue
            if em in ("cons", "all"):
                if len(exs) != 1:
                    return violation("shape %s %s%s: %d constraint examples with examples_mode=%s\n%s" % (lab, "^" if c.inverse else "", c.pred, len(exs), em, text), labels, nt)
                v = exs[0]
                val = v[1] if v[0] == "iri" else _unquote(v[1])
                pool = set()
                for n in sel[S]:
                    pool |= (in_vals if c.inverse else out_vals).get((n, c.pred), set())
                if val not in pool and v[0] == "lit" and not cfg.get("inverse_paths") and ":" in val:
                    # C17-EXPREFIX (pinned by a golden file): without inverse_paths a prefixed IRI value is printed as "ex:n0"
                    pfx, loc = val.split(":", 1)
                    nsd = {pv: k for k, pv in (cfg.get("namespaces_dict") or {}).items()}
                    if pfx in nsd and nsd[pfx] + loc in pool:
                        kf.append("C17-EXPREFIX")
                        continue
                if val not in pool:
                    return violation("shape %s %s%s: example %r is not a value of that property on any instance (values: %s)\n%s" % (
                        lab, "^" if c.inverse else "", c.pred, val, sorted(pool), text), labels, nt)
                labels.add("constraint-example-checked")
            elif exs:
                return violation("constraint example printed although examples_mode=%s" % em, labels, nt)
    # ---------------- neither option changes any constraint
    kw0 = {k: v for k, v in kw.items() if k not in ("detect_minimal_iri", "examples_mode")}
    t0, c0 = sut.shex(kw0, acceptance_threshold=0)
    if c0 is None:
        try:
            a = oracle.canon(doc, inst_prop)
            b = oracle.read_canon(t0, inst_prop)
            d = c13.diff_struct(c13.structure(a), c13.structure(b))
            if d:
                return violation("constraints differ from the run without detect_minimal_iri/examples_mode: %s\n--- with ---\n%s\n--- without ---\n%s" % (d[:3], text, t0), labels, nt)
        except shexc.ShExCError:
            pass
    if kf:
        return known(kf[0], "", labels, nt)
    return ok(labels, nt)


def _unquote(s):
    m = re.match(r'^"(.*)"(@[\w-]+|\^\^.*)?$', s, re.S)
    return m.group(1) if m else s


def _judge_stem(S, lab, exp, printed, dm, labels):
    if not dm:
        return "shape %s: stem %s printed without detect_minimal_iri" % (lab, printed) if printed else None
    if isinstance(exp, tuple):
        # blank-node instances have no IRI: accept 'no stem' or the stem of the IRI instances
        labels.add("bnode-instance-in-class")
        if printed and printed[0] != exp[1]:
            return "shape %s: stem %r, but the IRI instances give %r" % (lab, printed[0], exp[1])
        return None
    if exp is None:
        labels.add("stem-absent")
        if printed:
            return "shape %s: stem %r printed, expected none (shorter than 3 characters, no separator, or just a scheme)" % (lab, printed[0])
        return None
    labels.add("stem-printed")
    if len(printed) != 1 or printed[0] != exp:
        return "shape %s: stem %s, expected %r" % (lab, printed, exp)
    return None
