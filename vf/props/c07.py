"""C07 - the streaming Turtle reader yields exactly the triples of the document.

Dialect (properties.jsonl): whitespace-separated tokens, @prefix/@base directives on their own lines, single-line
double-quoted strings, no anonymous-node or collection syntax.  For any placement of line breaks, comments and ';' / ','
abbreviations the reader yields exactly the triples a standard Turtle parser produces; outside the dialect it raises
rather than yielding different triples.
Oracle: the abstract triples the document was laid out from (rdflib's Turtle parser must agree with the generator, else
the case is discarded and counted): set equality of (kind, IRI / bnode label / datatype) triples, and count.
"""
import itertools
import re
from hypothesis import strategies as st
from .. import sut
from ..runner import ok, violation, known, discard
from ..rdfmodel import XSD, XSD_STRING, LANGSTRING, RDF_TYPE, RDF
from .c06 import project

PID = "C07"
RULE = ("Hypothesis: abstract triple sets (IRI/bnode subjects, IRI/bnode/literal objects; literal contents over an adversarial piece "
        "alphabet with '#', ';', ',', '.', escaped quote/backslash; language tags; datatypes as <IRI>, xsd:-prefixed, custom-prefixed, "
        "XSD under another prefix name; untyped integers with and without sign) laid out by drawn choices: subject grouping with ';' and ',', 'a' vs rdf:type, "
        "prefixed / <absolute> / <relative to @base> IRIs, separator at every token boundary in {blank, tab, 2 blanks, newline, "
        "newline+indent}, whole-line and trailing comments.  Bounded-exhaustive: all 2^(n-1) blank/newline placements of pinned "
        "documents of <=12 tokens.  Out-of-dialect probes must raise or agree with rdflib.  Oracle: abstract triples (set and count); "
        "rdflib cross-checks the generator.  Non-trivial: a line break inside a statement, a comment, or a literal with a special "
        "character; distinct by SHA-1 of the case.")
ASSUMPTIONS = ["rdflib 6.0.2 Turtle parser as second opinion on every generated document", "5 s alarm + line-event bound for non-termination"]
BUDGET = {"quick": {"examples": 12000, "wall": 240}, "thorough": {"examples": 400000, "wall": 900}}
EXHAUSTIVE = {"quick": False, "thorough": False}
# coverage-guided supplement (vf/fuzz.py): libFuzzer runs per shard, 16 shards
FUZZ = {"quick": {"runs": 6000, "wall": 120}, "thorough": {"runs": 50000, "wall": 600}}
FLOORS = {"nontrivial": 0.4, "linebreak-in-statement": 0.3, "comment": 0.1, "special-literal": 0.15}

from vf.sut import shexer  # noqa
from shexer.io.graph.yielder.big_ttl_triples_yielder import BigTtlTriplesYielder  # noqa

PREFIXES = [("ex", "http://ex.org/"), ("ns", "http://ex.org/ns/"), ("xsd", XSD), ("x", XSD), ("dtp", "http://ex.org/dt/"),
            ("rdf", RDF), ("", "http://empty.org/")]
BASE = "http://base.org/b/"
BASES = [None, BASE, "https://sec.org/b/"]       # case["base"]: False/0 no @base, True/1 http base, 2 https base
IRIS = ["http://ex.org/s1", "http://ex.org/s2", "http://ex.org/ns/o1", "http://empty.org/e1", BASE + "rel1", BASE + "rel2",
        "http://other.org/v#frag", "http://ex.org/C", "http://ex.org/ns/D", "http://ex.org/a.b", "http://ex.org/a-b_1",
        "http://ex.org/ns/x.y-z", "http://ex.org/caf\u00e9", "http://ex.org/ns/s1", "http://empty.org/s1", "http://ex.org/o1",
        "https://sec.org/b/rel3", "https://data.example/d1", "urn:x:y1", "httpx://odd.org/z",
        "http://ex.org/item:42", "http://ex.org/ns/x:y:z", "http://empty.org/item:42"]
PREDS = ["http://ex.org/rel:to", "http://ex.org/p1", "http://ex.org/ns/p2", RDF_TYPE, BASE + "relp", "http://other.org/v#q",
         "http://ex.org/ns/p1", "http://empty.org/p1", "http://ex.org/p2"]      # same local names in several namespaces
BNODES = ["_:b1", "_:b2", "_:x_1"]
PIECES = ["a", "b c", "#", " # x", ";", " ; ", ",", " , ", ".", " . ", '\\"', "\\\\", "'", "@", "^^", "<", ">", "é", "\\n", "xsd:", "1", "\u2028", "\u0085"]
SPECIAL_PIECES = set(PIECES) - {"a", "b c", "1", "é"}
# datatype spellings: (text after the closing quote, datatype iri, needs prefix)
DTYPES = [("", XSD_STRING, None), ("@en", LANGSTRING, None), ("@en-GB", LANGSTRING, None),
          ("^^<%sint>" % XSD, XSD + "int", None), ("^^xsd:date", XSD + "date", "xsd"), ("^^dtp:custom", "http://ex.org/dt/custom", "dtp"),
          ("^^x:decimal", XSD + "decimal", "x"), ("^^<http://ex.org/dt/other>", "http://ex.org/dt/other", None),
          ("^^dtp:si:kg", "http://ex.org/dt/si:kg", "dtp"),
          ("^^xsd:string", XSD_STRING, "xsd")]
SEPS = [" ", " ", "\t", "  ", "\n", "\n", "\n   "]
CSEPS = [" ", "\t", "  ", " \t", "\t "]
COMMENTS = ["# a comment", "#c", '# "quoted" ; , .', "# <http://ex.org/a> ex:p ex:o ."]


# standard Turtle constructs outside the reader's dialect (anonymous nodes, collections, other string forms)
RAW_OBJECTS = ["[ <http://ex.org/q> <http://ex.org/o> ]", "[]", "( <http://ex.org/a> <http://ex.org/b> )", "()", "'single'",
               "'it\\'s'", '"""long"""', '"""two\nlines"""', "'''x'''", '[ <http://ex.org/q> "v" ; <http://ex.org/r> 5 ]',
               "( 1 2 )", "[ a <http://ex.org/C> ]", '"a"@en , [ ]']
RAW_SUBJECTS = ["[]", "[ <http://ex.org/q> <http://ex.org/o> ]", "( <http://ex.org/a> )"]


class Chooser(object):
    """consumes a list of drawn integers cyclically; keeps layout choices shrinkable and replayable"""

    def __init__(self, ints):
        self.ints = ints or [0]
        self.i = 0

    def pick(self, n):
        v = self.ints[self.i % len(self.ints)] % n
        self.i += 1
        return v


def render_iri(iri, ch, declared, use_base, position):
    """declared: dict prefix -> namespace currently bound (bindings may change in the middle of a document)"""
    forms = ["abs"]
    for p, ns in declared.items():
        if iri.startswith(ns):
            loc = iri[len(ns):]
            if loc and all(c.isalnum() or c in "_-.:" for c in loc) and loc[0] not in "-." and loc[-1] != ".":
                forms.append("pref:" + p)
    if use_base and iri.startswith(use_base):
        forms.append("rel")
    if position == "p" and iri == RDF_TYPE:
        forms += ["a", "a"]
    f = forms[ch.pick(len(forms))]
    if f == "abs":
        return "<%s>" % iri
    if f == "rel":
        return "<%s>" % iri[len(use_base):]
    if f == "a":
        return "a"
    p = f[5:]
    ns = declared[p]
    return "%s:%s" % (p, iri[len(ns):])


def render_obj(o, ch, declared, use_base):
    if o[0] == "iri":
        return render_iri(o[1], ch, declared, use_base, "o")
    if o[0] == "bnode":
        return o[1]
    if o[0] == "int":
        return o[1]
    return '"%s"%s' % (o[1], DTYPES[o[2]][0])


ALT_XSD = "http://ex.org/dtx/"      # a document may bind the label 'xsd' to a namespace of its own: a label is only a label


def obj_expected(o, alt=False):
    if alt and o[0] == "lit" and DTYPES[o[2]][2] == "xsd":
        return ("lit", ALT_XSD + DTYPES[o[2]][0].split(":", 1)[1])
    if o[0] == "iri":
        return ("iri", o[1])
    if o[0] == "bnode":
        return ("bnode", o[1])
    if o[0] == "int":
        return ("lit", XSD + "integer")
    return ("lit", DTYPES[o[2]][1])


def build(case):
    """returns (document text, expected projected triples, labels)"""
    ch = Chooser(case.get("forms"))
    sp = Chooser(case.get("seps"))
    cm = Chooser(case.get("comments"))
    cs = Chooser(case.get("comment_seps"))      # what separates a trailing comment from the statement: blank(s) and / or a tab
    gr = Chooser(case.get("group"))
    triples = case["triples"]
    labels = set()
    use_base = BASES[int(case.get("base") or 0)]       # None or the base IRI
    needed = set()
    for s, p, o in triples:
        if o[0] == "lit" and DTYPES[o[2]][2]:
            needed.add(DTYPES[o[2]][2])
    decl = set(needed)
    mask = case.get("prefix_mask", 0xff)
    for idx, (p, ns) in enumerate(PREFIXES):
        if mask >> idx & 1:
            decl.add(p)
    header = []
    declared = {}
    alt = bool(case.get("xsd_alt"))
    for p, ns in PREFIXES:
        if p in decl:
            if alt and p == "xsd":
                ns = ALT_XSD
                labels.add("xsd-label-bound-elsewhere")
            header.append("@prefix %s: <%s> ." % (p, ns))
            declared[p] = ns
    rebind = Chooser(case.get("rebind"))
    ood = case.get("ood") or {}
    glue_at = ood.get("glue")           # index of the punctuation token that loses the blank before it
    raw_at, raw_obj = ood.get("raw_at"), ood.get("raw_obj")     # object / subject of the n-th statement replaced by a raw construct
    n_punct = [0]
    n_stmt = [0]
    if use_base:
        header.append("@base <%s> ." % use_base)
    # grouping: consecutive triples with the same subject (and predicate) may share it
    tokens = []      # list of token strings; statements end with "."
    expected = []
    i = 0
    n = len(triples)
    while i < n:
        s, p, o = triples[i]
        if i > 0 and case.get("rebind") and rebind.pick(3) == 0:
            # re-bind a prefix in the middle of the document (legal Turtle; concatenated dumps do it)
            cand = [q for q in ("ex", "ns", "") if q in declared]
            if cand:
                q = cand[rebind.pick(len(cand))]
                others = [ns for ns in ("http://ex.org/", "http://ex.org/ns/", "http://empty.org/") if ns != declared[q]]
                declared[q] = others[rebind.pick(len(others))]
                tokens.append(["@prefix %s: <%s> ." % (q, declared[q])])
                labels.add("prefix-rebound")
        stoks = [render_iri(s[1], ch, declared, use_base, "s") if s[0] == "iri" else s[1],
                 render_iri(p, ch, declared, use_base, "p"), render_obj(o, ch, declared, use_base)]
        if raw_at is not None and n_stmt[0] == raw_at:
            if raw_obj < len(RAW_OBJECTS):
                stoks[2] = RAW_OBJECTS[raw_obj]
            else:
                stoks[0] = RAW_SUBJECTS[(raw_obj - len(RAW_OBJECTS)) % len(RAW_SUBJECTS)]
        n_stmt[0] += 1
        expected.append((tuple(s), p, obj_expected(o, alt)))
        j = i + 1
        cur_p = p
        while j < n and triples[j][0] == s and gr.pick(3) != 0:
            s2, p2, o2 = triples[j]
            if p2 == cur_p and gr.pick(2) == 0:
                stoks += [",", render_obj(o2, ch, declared, use_base)]
                labels.add("comma")
            else:
                stoks += [";", render_iri(p2, ch, declared, use_base, "p"), render_obj(o2, ch, declared, use_base)]
                labels.add("semicolon")
                cur_p = p2
            expected.append((tuple(s2), p2, obj_expected(o2, alt)))
            j += 1
        if case.get("dangling") and gr.pick(3) == 0:
            stoks.append(";")           # 'ex:s ex:p ex:o ; .'
            if gr.pick(4) == 0:
                stoks.append(";")
            labels.add("dangling-semicolon")
        stoks.append(".")
        tokens.append(stoks)
        i = j
    lines_out = list(header)
    if cm.pick(4) == 0:
        lines_out.insert(cm.pick(len(lines_out) + 1), COMMENTS[cm.pick(len(COMMENTS))])
        labels.add("comment")
    body = ""
    for stoks in tokens:
        if len(stoks) == 1:         # a directive: alone on its line
            if body and not body.endswith("\n"):
                body += "\n"
            body += stoks[0] + "\n"
            continue
        text = stoks[0]
        for tk in stoks[1:]:
            sep = SEPS[sp.pick(len(SEPS))]
            if tk in (",", ";", "."):
                if glue_at is not None and n_punct[0] == glue_at:
                    sep = ""
                n_punct[0] += 1
            if "\n" in sep:
                labels.add("linebreak-in-statement")
                c = cm.pick(6)
                if c == 0:
                    text += CSEPS[cs.pick(len(CSEPS))] + COMMENTS[cm.pick(len(COMMENTS))]
                    labels.add("comment")
                    labels.add("trailing-comment")
                elif c == 1:
                    text += "\n" + COMMENTS[cm.pick(len(COMMENTS))]
                    labels.add("comment")
            text += sep + tk
        c = cm.pick(8)
        joiner = "\n"
        if c == 0:
            text += CSEPS[cs.pick(len(CSEPS))] + COMMENTS[cm.pick(len(COMMENTS))]
            labels.add("comment")
            labels.add("trailing-comment")
        elif c == 1:
            text += "\n"
        elif c == 2:
            joiner = " "            # the next statement starts on the same line
            labels.add("two-statements-on-a-line")
        elif c == 3:
            joiner = "\r\n"
            labels.add("crlf")
        body += text + joiner
    if ood.get("sparql_header"):
        # SPARQL-style directives (legal Turtle 1.1, outside the reader's dialect)
        lines_out = [("PREFIX" + ln[len("@prefix"):].rstrip()[:-1].rstrip()) if ln.startswith("@prefix")
                     else ("BASE" + ln[len("@base"):].rstrip()[:-1].rstrip()) if ln.startswith("@base") else ln for ln in lines_out]
    if ood.get("drop_prefix") is not None:
        # the declaration of a prefix that the body uses is left out: no reader can resolve such a name
        # ('rdf:type' is accepted by the reader as a keyword, like 'a', whether or not rdf: is declared - a documented
        # convenience, so the rdf prefix is never the one dropped)
        used = [q for q in declared if q != "rdf" and re.search(r"(^|[\s^])%s:[A-Za-z0-9_]" % re.escape(q), body)]
        if used:
            q = used[ood["drop_prefix"] % len(used)]
            lines_out = [ln for ln in lines_out if not ln.startswith("@prefix %s: " % q)]
            if not re.search(r"^@prefix %s: " % re.escape(q), body, re.M):
                labels.add("undeclared-prefix")
    sep_hb = " " if (ood.get("join_header") and lines_out and not lines_out[-1].startswith("#")) else "\n"
    doc = "\n".join(lines_out) + sep_hb + body + ("" if body.endswith("\n") else "\n")
    if any(o[0] == "lit" and any(pc in SPECIAL_PIECES for pc in o[3]) for s, p, o in triples):
        labels.add("special-literal")
    if any(o[0] == "lit" and DTYPES[o[2]][0].startswith("@") for s, p, o in triples):
        labels.add("lang-tag")
    if any(o[0] == "lit" and DTYPES[o[2]][2] for s, p, o in triples):
        labels.add("prefixed-datatype")
    if use_base:
        labels.add("base")
    return doc, expected, labels


def normalize_case(case):
    """JSON lists -> internal tuples; literal objects: ("lit", escaped text, dtype index, pieces)"""
    out = []
    for s, p, o in case["triples"]:
        s = tuple(s)
        if o[0] == "lit":
            o = ("lit", "".join(PIECES[k] for k in o[1]), o[2], tuple(PIECES[k] for k in o[1]))
        else:
            o = tuple(o)
        out.append((s, p, o))
    c = dict(case)
    c["triples"] = out
    return c


def read_doc(text, timeout=5.0, chan="raw"):
    """chan: a raw string, a file, or a gz / xz compressed file - the same content through the other line readers"""
    def go():
        if chan == "raw":
            y = BigTtlTriplesYielder(raw_graph=text)
            return [project(t) for t in y.yield_triples()]
        import os
        import gzip
        import lzma
        with sut.tmpdir() as d:
            path = os.path.join(d, "doc.ttl" + {"file": "", "gz": ".gz", "xz": ".xz"}[chan])
            data = text.encode("utf-8")
            opener = {"file": open, "gz": gzip.open, "xz": lzma.open}[chan]
            with opener(path, "wb") as f:
                f.write(data)
            y = BigTtlTriplesYielder(source_file=path, compression_mode=None if chan == "file" else chan)
            return [project(t) for t in y.yield_triples()]
    return sut.guarded(go, timeout)


def rdflib_parse(text):
    import rdflib
    from ..rdfmodel import from_rdflib_term
    g = rdflib.Graph()
    g.parse(data=text, format="turtle")
    out = []
    for s, p, o in g:
        def pr(t):
            t = from_rdflib_term(t)
            return ("lit", t[2]) if t[0] == "lit" else (t[0], t[1] if t[0] == "iri" else None)
        out.append((pr(s), str(p), pr(o)))
    return out


def strip_b(trs):
    def sb(t):
        return ("bnode", None) if t[0] == "bnode" else t
    return sorted((sb(s), p, sb(o)) for s, p, o in trs)


def check(case):
    if "probe" in case:
        return check_probe(case)
    c = normalize_case(case)
    doc, expected, labels = build(c)
    if case.get("ood"):
        return check_ood(case, doc, labels)
    exp = [(("iri", s[1]) if s[0] == "iri" else ("bnode", s[1]), p, o) for s, p, o in expected]
    try:
        rl = rdflib_parse(doc)
    except Exception:
        return discard("generator-crosscheck:rdflib-rejects")
    if strip_b(rl) != strip_b(exp):
        return discard("generator-crosscheck:rdflib-differs")
    nt = bool(labels & {"linebreak-in-statement", "comment", "special-literal"})
    if nt:
        labels.add("nontrivial")
    chan = case.get("chan", "raw")
    if chan != "raw":
        labels.add("chan:" + chan)
    res, crash = read_doc(doc, chan=chan)
    if crash is not None:
        if isinstance(crash, sut.Hang):
            if sut.confirm_loop(lambda: list(BigTtlTriplesYielder(raw_graph=doc).yield_triples())):
                return violation("reader does not terminate on\n%s" % doc, labels, nt)
            return discard("slow")
        return violation("reader raised %s (document delivered as %s) on\n%s" % (crash, chan, doc), labels, nt)
    if sorted(res) != sorted(exp):
        missing = [t for t in exp if t not in res]
        extra = [t for t in res if t not in exp]
        return violation("document\n%s\n missing %s\n unexpected %s\n (%d yielded, %d expected)" % (doc, missing[:3], extra[:3], len(res), len(exp)), labels, nt)
    return ok(labels, nt)


# ------------------------------------------------------------------ out-of-dialect documents (generated)

def check_ood(case, doc, labels):
    """a generated in-dialect document with ONE feature outside the dialect (no blank before a punctuation token, an anonymous
    node / collection / other string form as object or subject, SPARQL-style directives, a directive sharing its line with a
    statement).  Oracle (last clause of the property): the reader raises, or it yields exactly the triples a standard Turtle
    parser (rdflib) yields; a document rdflib rejects is not Turtle at all and is discarded."""
    labels = set(labels) | {"out-of-dialect", "ood:" + "+".join(sorted(k for k, v in case["ood"].items() if v is not None and v is not False and k != "raw_obj"))}
    try:
        rl = rdflib_parse(doc)
    except Exception:
        if "undeclared-prefix" in labels:
            # not Turtle at all: a name with an undeclared prefix denotes nothing, so whatever the reader yields is "different triples"
            res, crash = read_doc(doc)
            if crash is None:
                return violation("a document using a prefix it never declares is read silently instead of raising\n%s\n yielded %s" % (doc, res[:4]), labels, True)
            return ok(labels | {"probe-raised"}, True)
        return discard("ood-rejected-by-rdflib")
    res, crash = read_doc(doc)
    if crash is not None:
        if isinstance(crash, sut.Hang):
            if sut.confirm_loop(lambda: list(BigTtlTriplesYielder(raw_graph=doc).yield_triples())):
                return violation("reader does not terminate on out-of-dialect document\n%s" % doc, labels, True)
            return discard("slow")
        return ok(labels | {"probe-raised"}, True)
    # blank nodes are compared by kind in the triples, and by their NUMBER: two anonymous nodes are two nodes
    import rdflib as _rdflib
    _g = _rdflib.Graph()
    _g.parse(data=doc, format="turtle")
    want_b = len({t for tr in _g for t in (tr[0], tr[2]) if isinstance(t, _rdflib.BNode)})
    got_b = len({t[1] for tr in res for t in (tr[0], tr[2]) if t[0] == "bnode"})
    if got_b != want_b:
        return violation("out-of-dialect document read silently with %d distinct blank nodes, a standard parser sees %d\n%s\n yielded %s" % (
            got_b, want_b, doc, res[:6]), labels, True)
    # compared as sets: the projection drops the lexical form, and rdflib merges literals that differ only in it ("72", "+72")
    got, want = sorted(set(strip_b(res))), sorted(set(strip_b(rl)))
    if got != want:
        return violation("out-of-dialect document read silently as other triples instead of raising\n%s\n yielded %s\n standard parser %s" % (doc, got[:6], want[:6]), labels, True)
    return ok(labels | {"probe-agrees"}, True)


# ------------------------------------------------------------------ out-of-dialect probes

PROBES = [
    "@prefix ex: <http://ex.org/> .\nex:s ex:p ex:o.\n",
    "@prefix ex: <http://ex.org/> .\nex:s ex:p ex:o1, ex:o2 .\n",
    "@prefix ex: <http://ex.org/> .\nex:s ex:p ex:o1; ex:q ex:o2 .\n",
    "@prefix ex: <http://ex.org/> .\nex:s ex:p [ ex:q ex:o ] .\n",
    "@prefix ex: <http://ex.org/> .\nex:s ex:p ( ex:a ex:b ) .\n",
    '@prefix ex: <http://ex.org/> .\nex:s ex:p """long\nliteral""" .\n',
    "@prefix ex: <http://ex.org/> .\nex:s ex:p 'single' .\n",
    "PREFIX ex: <http://ex.org/>\nex:s ex:p ex:o .\n",
    "@prefix ex: <http://ex.org/> .\n[] ex:p ex:o .\n",
    "@prefix ex: <http://ex.org/> .\nex:s ex:p \"a\"@en.\n",
    "@prefix ex: <http://ex.org/> .\nex:s ex:p ex:o .ex:s2 ex:p ex:o .\n",
    "@prefix ex: <http://ex.org/> . ex:s ex:p ex:o .\n",
]


def check_probe(case):
    doc = PROBES[case["probe"] % len(PROBES)]
    labels = {"out-of-dialect"}
    res, crash = read_doc(doc)
    if crash is not None:
        if isinstance(crash, sut.Hang):
            return violation("reader does not terminate on out-of-dialect document %r" % doc, labels, True)
        return ok(labels | {"probe-raised"}, True)
    try:
        rl = rdflib_parse(doc)
    except Exception:
        return discard("probe-rejected-by-rdflib")
    # bnode-insensitive, anonymous nodes compared by kind
    got = strip_b([(s, p, o) for s, p, o in res])
    want = strip_b(rl)
    if got != want:
        return known("C07-T6", "out-of-dialect document %r read silently as %s instead of raising (rdflib: %s)" % (doc, got, want), labels, True) \
            if case["probe"] % len(PROBES) in KNOWN_PROBES else \
            violation("out-of-dialect document %r read silently as %s instead of raising (rdflib: %s)" % (doc, got, want), labels, True)
    return ok(labels | {"probe-agrees"}, True)


KNOWN_PROBES = set()


# ------------------------------------------------------------------ strategies

@st.composite
def term_obj(draw):
    k = draw(st.integers(0, 9))
    if k < 5:
        pieces = draw(st.lists(st.integers(0, len(PIECES) - 1), max_size=5))
        return ["lit", pieces, draw(st.integers(0, len(DTYPES) - 1))]
    if k < 7:
        return ["iri", draw(st.sampled_from(IRIS))]
    if k < 8:
        return ["bnode", draw(st.sampled_from(BNODES))]
    if k < 9:
        return ["int", draw(st.sampled_from(["", "", "-", "+"])) + str(draw(st.integers(0, 99)))]
    return ["iri", draw(st.sampled_from(IRIS))]


@st.composite
def cases(draw):
    if draw(st.integers(0, 19)) == 0:
        return {"probe": draw(st.integers(0, len(PROBES) - 1))}
    nsub = draw(st.integers(1, 3))
    subs = draw(st.lists(st.one_of(st.tuples(st.just("iri"), st.sampled_from(IRIS[:6])), st.tuples(st.just("bnode"), st.sampled_from(BNODES))),
                         min_size=nsub, max_size=nsub, unique=True))
    triples = []
    seen = set()
    for s in subs:
        for _ in range(draw(st.integers(1, 4))):
            p = draw(st.sampled_from(PREDS))
            o = draw(term_obj())
            if p == RDF_TYPE and o[0] != "iri":
                o = ["iri", "http://ex.org/C"]
            key = repr((s, p, o))
            if key in seen:
                continue
            seen.add(key)
            triples.append([list(s), p, o])
    ints = st.lists(st.integers(0, 41), min_size=1, max_size=24)
    case = {"triples": triples, "forms": draw(ints), "seps": draw(ints), "comments": draw(ints), "comment_seps": draw(ints), "xsd_alt": draw(st.integers(0, 7)) == 0, "group": draw(ints),
            "base": draw(st.sampled_from([False, True, 2])), "prefix_mask": draw(st.integers(0, 255)),
            "chan": draw(st.sampled_from(["raw", "raw", "raw", "raw", "file", "gz", "xz"])), "dangling": draw(st.integers(0, 3)) == 0}
    if draw(st.integers(0, 3)) == 0:
        case["rebind"] = draw(ints)
    if draw(st.integers(0, 5)) == 0:
        k = draw(st.integers(0, 4))
        n_raw = len(RAW_OBJECTS) + len(RAW_SUBJECTS)
        case["ood"] = {"drop_prefix": draw(st.integers(0, 5)) if k == 4 else None,
                       "glue": draw(st.integers(0, 5)) if k == 0 else None,
                       "raw_at": draw(st.integers(0, 2)) if k == 1 else None, "raw_obj": draw(st.integers(0, n_raw - 1)) if k == 1 else None,
                       "sparql_header": k == 2, "join_header": k == 3}
    return case


def strategy(tier):
    return cases()


# ------------------------------------------------------------------ bounded-exhaustive separator placements

PINNED = [
    [[["iri", "http://ex.org/s1"], "http://ex.org/p1", ["lit", [0], 0]], [["iri", "http://ex.org/s1"], RDF_TYPE, ["iri", "http://ex.org/C"]],
     [["iri", "http://ex.org/s1"], "http://ex.org/p1", ["iri", "http://ex.org/ns/o1"]]],
    [[["iri", "http://ex.org/s2"], "http://ex.org/ns/p2", ["lit", [1, 2], 1]], [["bnode", "_:b1"], "http://ex.org/p1", ["lit", [0], 4]]],
    [[["bnode", "_:b1"], RDF_TYPE, ["iri", "http://ex.org/C"]], [["bnode", "_:b1"], "http://ex.org/p1", ["int", "7"]],
     [["bnode", "_:b1"], "http://ex.org/p1", ["bnode", "_:b2"]]],
]


def enumerate_cases(tier):
    """every blank/newline placement at every token boundary of pinned documents (separator list is consumed per boundary)"""
    for pi, triples in enumerate(PINNED):
        for grouping in ([0], [1, 0], [1, 1]):
            # count boundaries by building once
            probe = {"triples": triples, "forms": [0 if tier == "quick" else 1], "seps": [0], "comments": [3], "group": grouping,
                     "base": False, "prefix_mask": 255}
            nb = _count_boundaries(probe)
            if nb > 12:
                continue
            for bits in itertools.product([0, 4], repeat=nb):
                c = dict(probe)
                c["seps"] = list(bits)
                yield c


def _count_boundaries(case):
    c = normalize_case(case)
    gr = Chooser(case.get("group"))
    triples = c["triples"]
    total = 0
    i = 0
    n = len(triples)
    while i < n:
        s, p, o = triples[i]
        toks = 3
        j = i + 1
        cur_p = p
        while j < n and triples[j][0] == s and gr.pick(3) != 0:
            s2, p2, o2 = triples[j]
            if p2 == cur_p and gr.pick(2) == 0:
                toks += 2
            else:
                toks += 3
                cur_p = p2
            j += 1
        total += toks          # tokens incl. the final dot, minus one = boundaries; plus... see below
        i = j
    return total               # (toks + 1 tokens per statement) - 1 boundaries = toks
