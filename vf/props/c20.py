"""C20 - contradictory or unsupported configurations are rejected up front.

The constructor raises ValueError exactly when the arguments are contradictory or unsupported (not exactly one graph source;
no target specification or several incompatible ones - all_classes_mode may only be combined with a shape map; unknown input
format, compression mode or examples mode; compression with a remote source; allow_redundant_or while disjunctions are
disabled) and shex_graph raises ValueError for a threshold outside [0,1], an unknown output format, or no output sink; every
other combination is accepted and no invalid one is deferred to a later, obscurer failure.
Oracle: a ten-line reference predicate transcribed from the property text; exhaustive enumeration of the argument groups.
"""
import os
import gzip
import lzma
import zipfile
import itertools
from .. import sut, fake_endpoint
from ..runner import ok, violation, known, discard
from ..rdfmodel import RDF_TYPE, to_nt, to_tsv, to_simple_turtle, to_rdflib, XSD_STRING

PID = "C20"
SOURCES = ["graph_file_input", "graph_list_of_files_input", "raw_graph", "url_graph_input", "list_of_url_input", "url_endpoint", "rdflib_graph"]
TARGETS = ["target_classes", "file_target_classes", "shape_map_file", "shape_map_raw"]
FORMATS = ["nt", "tsv_spo", "turtle", "turtle_iter", "xml", "n3", "json-ld", "bogus"]
COMPRESSIONS = [None, "gz", "zip", "xz", "bogus"]
EXAMPLES = [None, "shape", "cons", "all", "bogus"]
RULE = ("Exhaustive enumeration (no random choice): (A) all 2^7 presence patterns of the graph-source arguments x all 2^5 patterns of "
        "the target arguments (incl. all_classes_mode), each also with present-but-empty raw_graph='' / rdflib Graph(); (B) every single source x every valid target pattern x compression "
        "{None,gz,zip,xz,bogus} x input formats + bogus x examples modes + bogus x the 4 or-flag combinations (quick: examples/or-flags "
        "cycled instead of multiplied); (C) thresholds {-0.01,0,1,1.01} x output formats {ShEx,Shacl,bogus} x sinks {none,string,"
        "file,both,uml,uml+string} (the PlantUML call is replaced by a recorder); (D) near-miss unknown values for the four closed vocabularies (every substring of "
        "length <= 5 of the joined vocabulary, prefixes, suffixes, case variants, padded / extended / empty strings) and thresholds within 1e-9 .. 1 ulp of the interval ends; (E) every sequence of 2 (quick: most of 3, thorough: all of 3) calls on ONE Shaper over six call kinds (valid, threshold above / below the interval, SHACL, unknown format, no sink), each call judged on its own arguments.  Oracle: reference predicate; constructor / shex_graph raise ValueError <=> predicate says invalid, any other "
        "exception type is a violation, and an accepted configuration must complete a shex_graph call on a tiny graph served in the "
        "declared format/compression (no deferral).  Non-trivial: the configuration differs from a valid one in at most one argument "
        "group (the accept/reject boundary) - all are counted; distinct by the case itself.")
ASSUMPTIONS = ["the reference predicate below is a faithful transcription of the property text",
               "remote sources are exercised with file:// URLs and an in-process SPARQL endpoint (no network)"]
BUDGET = {"quick": {"examples": 0, "wall": 240}, "thorough": {"examples": 0, "wall": 1200}}
EXHAUSTIVE = {"quick": True, "thorough": True}
FLOORS = {"nontrivial": 0.2, "expected:accept": 0.05, "expected:reject": 0.3}
SURVEY = bool(os.environ.get("VF_C20_SURVEY"))
ENDPOINT = "http://fake.endpoint/sparql"

EX = "http://ex.org/"
TRIPLES = [
    (("iri", EX + "n1"), RDF_TYPE, ("iri", EX + "C0")),
    (("iri", EX + "n1"), EX + "p", ("lit", "a", XSD_STRING, "")),
    (("iri", EX + "n2"), RDF_TYPE, ("iri", EX + "C0")),
    (("iri", EX + "n2"), EX + "q", ("iri", EX + "n1")),
]


# ------------------------------------------------------------------ reference predicate (from the property text)

def ctor_invalid(c):
    reasons = []
    if len(c["sources"]) != 1:
        reasons.append("not exactly one graph source")
    nt = len(c["targets"])
    if not c["all_classes"]:
        if nt != 1:
            reasons.append("no target specification or several")
    else:
        if any(t in ("target_classes", "file_target_classes") for t in c["targets"]):
            reasons.append("all_classes_mode combined with class targets")
        if "shape_map_file" in c["targets"] and "shape_map_raw" in c["targets"]:
            reasons.append("two shape maps")
    if c["format"] not in FORMATS[:-1]:
        reasons.append("unknown input format")
    if c["compression"] not in (None, "gz", "zip", "xz"):
        reasons.append("unknown compression mode")
    if c["examples"] not in (None, "shape", "cons", "all"):
        reasons.append("unknown examples mode")
    if c["compression"] is not None and any(s in ("url_graph_input", "list_of_url_input", "url_endpoint") for s in c["sources"]):
        reasons.append("compression with a remote source")
    # "omit": the argument is not passed at all; the documented defaults are disable_or_statements=True, allow_redundant_or=False
    dis = True if c["or"][0] == "omit" else c["or"][0]
    red = False if c["or"][1] == "omit" else c["or"][1]
    if dis and red:
        reasons.append("allow_redundant_or while disjunctions are disabled")
    return reasons


def call_invalid(call):
    reasons = []
    if call["thr"] < 0 or call["thr"] > 1:
        reasons.append("threshold outside [0,1]")
    if call["fmt"] not in ("ShEx", "Shacl"):
        reasons.append("unknown output format")
    if call["sink"] == "none":
        reasons.append("no output sink")
    return reasons


# ------------------------------------------------------------------ materialisation of arguments

def content(fmt, triples):
    if fmt == "nt":
        return to_nt(triples)
    if fmt == "tsv_spo":
        return to_tsv(triples)
    if fmt in ("turtle", "turtle_iter", "n3"):
        return to_simple_turtle(triples, {"ex": EX})
    if fmt == "xml":
        return to_rdflib(triples).serialize(format="xml")
    if fmt == "json-ld":
        return to_rdflib(triples).serialize(format="json-ld")
    return to_nt(triples)


def write_file(d, name, text, comp):
    path = os.path.join(d, name)
    if comp == "gz":
        path += ".gz"
        with gzip.open(path, "wt", encoding="utf-8") as f:
            f.write(text)
    elif comp == "xz":
        path += ".xz"
        with lzma.open(path, "wt", encoding="utf-8") as f:
            f.write(text)
    elif comp == "zip":
        path += ".zip"
        with zipfile.ZipFile(path, "w") as z:
            z.writestr(name, text)
    else:
        with open(path, "w", encoding="utf-8") as f:
            f.write(text)
    return path


def build_kwargs(c, d):
    fmt = c["format"]
    comp = c["compression"] if c["compression"] in (None, "gz", "zip", "xz") else None
    kw = {"input_format": fmt, "compression_mode": c["compression"], "examples_mode": c["examples"],
          "disable_or_statements": c["or"][0], "allow_redundant_or": c["or"][1], "namespaces_dict": {EX: "ex"}}
    for k_ in ("disable_or_statements", "allow_redundant_or"):
        if kw[k_] == "omit":
            del kw[k_]
    ext = {"nt": "nt", "tsv_spo": "tsv", "turtle": "ttl", "turtle_iter": "ttl", "n3": "n3", "xml": "xml", "json-ld": "json"}.get(fmt if isinstance(fmt, str) else "?", "nt")
    for s in c["sources"]:
        if s == "graph_file_input":
            kw[s] = write_file(d, "g." + ext, content(fmt, TRIPLES), comp)
        elif s == "graph_list_of_files_input":
            kw[s] = [write_file(d, "g1." + ext, content(fmt, TRIPLES[:2]), comp), write_file(d, "g2." + ext, content(fmt, TRIPLES[2:]), comp)]
        elif s == "raw_graph":
            kw[s] = "" if c.get("empty") else content(fmt, TRIPLES)
        elif s == "url_graph_input":
            kw[s] = "file://" + write_file(d, "u." + ext, content(fmt, TRIPLES), None)
        elif s == "list_of_url_input":
            kw[s] = ["file://" + write_file(d, "u1." + ext, content(fmt, TRIPLES[:2]), None),
                     "file://" + write_file(d, "u2." + ext, content(fmt, TRIPLES[2:]), None)]
        elif s == "url_endpoint":
            kw[s] = ENDPOINT
        elif s == "rdflib_graph":
            kw[s] = to_rdflib([] if c.get("empty") else TRIPLES)
    for t in c["targets"]:
        if t == "target_classes":
            kw[t] = [EX + "C0"]
        elif t == "file_target_classes":
            kw[t] = write_file(d, "targets.txt", EX + "C0\n", None)
        elif t == "shape_map_file":
            kw[t] = write_file(d, "map.sm", "{FOCUS a ex:C0}@<http://sh.org/S1>\n", None)
        elif t == "shape_map_raw":
            kw[t] = "{FOCUS a ex:C0}@<http://sh.org/S2>"
    if c["all_classes"]:
        kw["all_classes_mode"] = True
    return kw


def check(c):
    labels = set()
    exp_ctor = ctor_invalid(c)
    call = c.get("call") or {"thr": 0, "fmt": "ShEx", "sink": "string"}
    exp_call = call_invalid(call) if not c.get("calls") else [r for cl in c["calls"] for r in call_invalid(cl)]
    labels.add("expected:reject" if (exp_ctor or exp_call) else "expected:accept")
    nt = len(exp_ctor) + len(exp_call) <= 1
    if nt:
        labels.add("nontrivial")
    for r in exp_ctor + exp_call:
        labels.add("reason:" + r)
    with sut.tmpdir() as d, fake_endpoint.serving(ENDPOINT, TRIPLES):
        kw = build_kwargs(c, d)
        holder = {}

        def construct():
            holder["s"] = sut.Shaper(**kw)
            return True
        res, crash = sut.guarded(construct, 30)
        desc = ("EMPTY-GRAPH " if c.get("empty") else "") + "sources=%s targets=%s all_classes=%s format=%s compression=%s examples=%s or=%s" % (
            c["sources"], c["targets"], c["all_classes"], c["format"], c["compression"], c["examples"], c["or"])
        if exp_ctor:
            if crash is None:
                return violation("constructor accepted an invalid configuration (%s): %s" % ("; ".join(exp_ctor), desc), labels, nt)
            if crash.type != "ValueError":
                return _deferred(crash, "constructor rejected (%s) with %s instead of ValueError: %s" % ("; ".join(exp_ctor), crash, desc), labels, nt, c)
            return ok(labels, nt)
        if crash is not None:
            return _deferred(crash, "constructor rejected a valid configuration with %s: %s" % (crash, desc), labels, nt, c)
        if c.get("calls"):
            for i, cl in enumerate(c["calls"]):
                bad = call_invalid(cl)
                skw = {"acceptance_threshold": cl["thr"], "output_format": cl["fmt"]}
                if cl["sink"] == "string":
                    skw["string_output"] = True
                res, crash = sut.guarded(lambda: holder["s"].shex_graph(**skw), 30)
                where = "call %d of the sequence %s on one Shaper" % (i + 1, c["calls"])
                if bad and crash is None:
                    return violation("shex_graph accepted an invalid call (%s): %s" % ("; ".join(bad), where), labels, nt)
                if bad and crash.type != "ValueError":
                    return violation("shex_graph rejected (%s) with %s instead of ValueError: %s" % ("; ".join(bad), crash, where), labels, nt)
                if not bad and crash is not None:
                    return violation("a valid call fails with %s: %s" % (crash, where), labels, nt)
                if not bad and not isinstance(res, str):
                    return violation("a valid call returned %r: %s" % (res, where), labels, nt)
            return ok(labels | {"call-sequence"}, nt)
        out_path = os.path.join(d, "out.shex")
        uml_path = os.path.join(d, "out.png")
        skw = {"acceptance_threshold": call["thr"], "output_format": call["fmt"]}
        if call["sink"] in ("string", "both", "uml+string"):
            skw["string_output"] = True
        if call["sink"] in ("file", "both"):
            skw["output_file"] = out_path
        if call["sink"] in ("uml", "uml+string"):
            skw["to_uml_path"] = uml_path
        # the UML diagram needs a PlantUML server; it is replaced from outside by a recorder (no repository hook)
        uml_calls = []
        holder["s"]._generate_uml_diagram = lambda path: uml_calls.append(path)
        res, crash = sut.guarded(lambda: holder["s"].shex_graph(**skw), 30)
        if exp_call:
            if crash is None:
                return violation("shex_graph accepted an invalid call (%s): %s" % ("; ".join(exp_call), call), labels, nt)
            if crash.type != "ValueError":
                return violation("shex_graph rejected (%s) with %s instead of ValueError" % ("; ".join(exp_call), crash), labels, nt)
            # "rejected up front": nothing was produced and no extraction work was started before the ValueError
            if uml_calls or os.path.exists(out_path):
                return violation("invalid call (%s) was rejected only after output had been produced (uml=%s, file=%s): %s" % (
                    "; ".join(exp_call), uml_calls, os.path.exists(out_path), call), labels, nt)
            if getattr(holder["s"], "_target_classes_dict", None) is not None:
                return violation("invalid call (%s) was rejected only after the extraction had been run (deferred failure): %s" % ("; ".join(exp_call), call), labels, nt)
            return ok(labels, nt)
        if crash is None and call["sink"] in ("uml", "uml+string") and uml_calls != [uml_path]:
            return violation("to_uml_path given but the diagram generator was called %s" % uml_calls, labels, nt)
        if crash is not None:
            return _deferred(crash, "accepted configuration fails later in shex_graph with %s: %s" % (crash, desc), labels, nt, c)
        if call["sink"] in ("string", "both", "uml+string") and not (isinstance(res, str) and ("{" in res or c.get("empty")) if call["fmt"] == "ShEx" else isinstance(res, str)):
            return violation("accepted configuration returned %r" % (res,), labels, nt)
        if call["sink"] in ("string", "both", "uml+string") and call["fmt"] == "ShEx" and call["thr"] == 0 and not c.get("empty") and EX + "p" not in res and "ex:p" not in res:
            return violation("accepted configuration produced shapes without the data's property (graph not read?): %s\n%s" % (desc, res), labels, nt)
    return ok(labels, nt)


# known deferred failures: (finding id, predicate(case, crash))
def _has_sm(c):
    return any(t.startswith("shape_map") for t in c["targets"])


def _is_listsm(c, crash):
    return _has_sm(c) and c["sources"] in (["graph_list_of_files_input"], ["list_of_url_input"]) \
        and crash.type == "ValueError" and crash.func == "_build_rdflib_graph"


def _is_sm_format(c, crash):
    return _has_sm(c) and c["sources"] in (["graph_file_input"], ["raw_graph"], ["url_graph_input"]) \
        and c["format"] in ("tsv_spo", "turtle_iter") and crash.func == "_build_rdflib_graph"


def _is_sm_compressed(c, crash):
    return _has_sm(c) and c["sources"] == ["graph_file_input"] and c["compression"] in ("gz", "zip", "xz") \
        and crash.func == "_build_rdflib_graph"


def _is_mem_compression(c, crash):
    return c["sources"] in (["raw_graph"], ["rdflib_graph"]) and c["compression"] in ("gz", "zip", "xz") \
        and crash.type == "TypeError" and crash.func in ("get_content_gz_file", "get_content_xz_file", "_get_base_zip_archive_if_needed")


def _is_urlfmt(c, crash):
    return c["sources"] in (["url_graph_input"], ["list_of_url_input"]) and c["format"] in ("tsv_spo", "turtle_iter") \
        and crash.func == "_check_input_format"


KNOWN_DEFERRED = [("C20-LISTSM", _is_listsm), ("C20-SM-FORMAT", _is_sm_format), ("C20-SM-COMPRESSED", _is_sm_compressed),
                  ("C20-MEM-COMPRESSION", _is_mem_compression), ("C20-URLFMT", _is_urlfmt)]


def _deferred(crash, msg, labels, nt, c):
    if SURVEY:
        key = "%s|src=%s|tgt=%s%s|fmt=%s|comp=%s" % (crash.bucket, ",".join(c["sources"]), ",".join(c["targets"]), "+all" if c["all_classes"] else "", c["format"], c["compression"])
        return known(key, msg, labels, nt)
    for fid, pred in KNOWN_DEFERRED:
        if pred(c, crash):
            return known(fid, msg, labels, nt)
    return violation(msg + "\n" + crash.tb[-1200:], labels, nt)


# ------------------------------------------------------------------ enumeration

def _subsets(names):
    for r in range(len(names) + 1):
        for comb in itertools.combinations(names, r):
            yield list(comb)


def near_misses(valid):
    """strings that are NOT in the vocabulary but close to it: every substring (length <= 5) of the vocabulary joined the way an
    error message would join it, prefixes / suffixes, case variants, padded, extended and empty values"""
    out = []
    joined = ", ".join(valid)
    for i in range(len(joined)):
        for L in range(1, 6):
            out.append(joined[i:i + L])
    for v in valid:
        out += [v.upper(), v.lower(), v.capitalize(), v[:-1], v[1:], v + " ", " " + v, v + "x", "x" + v, v + "\n", v + "," + v,
                v.replace("_", "-"), v.replace("-", "_")]
    out += ["", " ", joined, ",", "None", "none", "null"]
    seen = set(valid)
    for o in out:
        if o not in seen:
            seen.add(o)
            yield o
    # values of other types (a user combining modes in a list, a number, a flag...): unknown all the same -> ValueError
    for o in ([valid[0]], [valid[0], valid[-1]], (valid[0],), {valid[0]: True}, {valid[0]}, 0, 7, 1.5, True, False, valid[0].encode()):
        yield o


VALID_TARGETS = [(["target_classes"], False), (["file_target_classes"], False), (["shape_map_file"], False), (["shape_map_raw"], False),
                 ([], True), (["shape_map_raw"], True), (["shape_map_file"], True)]


def enumerate_cases(tier):
    base = {"format": "nt", "compression": None, "examples": None, "or": [True, False]}
    # (A) sources x targets
    for src in _subsets(SOURCES):
        for tg in _subsets(TARGETS):
            for allc in (False, True):
                yield dict(base, sources=src, targets=tg, all_classes=allc)
                if "raw_graph" in src or "rdflib_graph" in src:
                    # present-but-empty graphs ("" / Graph()) are still "given": presence is 'is not None', not truthiness
                    yield dict(base, sources=src, targets=tg, all_classes=allc, empty=True)
    # (B) single source x valid targets x compression x format x examples x or-flags
    ors = [[True, False], [False, False], [False, True], [True, True]]
    k = 0
    for s in SOURCES:
        for tg, allc in VALID_TARGETS:
            for comp in COMPRESSIONS:
                for fmt in FORMATS:
                    if tier == "thorough":
                        for ex in EXAMPLES:
                            for o in ors:
                                yield {"sources": [s], "targets": tg, "all_classes": allc, "format": fmt, "compression": comp, "examples": ex, "or": o}
                    else:
                        k += 1
                        yield {"sources": [s], "targets": tg, "all_classes": allc, "format": fmt, "compression": comp,
                               "examples": EXAMPLES[k % len(EXAMPLES)], "or": ors[(k // 5) % 4]}
    # examples x or-flags full product on one configuration
    for ex in EXAMPLES:
        for o in ors:
            yield dict(base, sources=["raw_graph"], targets=[], all_classes=True, examples=ex)
            yield {"sources": ["raw_graph"], "targets": ["target_classes"], "all_classes": False, "format": "nt", "compression": None, "examples": ex, "or": o}
    # or-flags left at their defaults (not passed): the check must see the default, not the absence
    for o in (["omit", True], ["omit", False], [True, "omit"], [False, "omit"], ["omit", "omit"]):
        yield dict(base, sources=["raw_graph"], targets=[], all_classes=True, **{"or": o})
        yield {"sources": ["raw_graph"], "targets": ["target_classes"], "all_classes": False, "format": "nt", "compression": None, "examples": None, "or": o}
    # (D) near-miss unknown values: the single representative 'bogus' cannot tell a membership test from a substring / prefix /
    # case-insensitive test, so every argument with a closed vocabulary is also probed with strings derived from the valid ones
    # None is 'no compression' / 'no examples' for those two arguments, but it names no input or output format
    for fmt in list(near_misses(FORMATS[:-1])) + [None]:
        yield dict(base, sources=["raw_graph"], targets=[], all_classes=True, format=fmt)
    for comp in near_misses(["gz", "zip", "xz"]):
        yield dict(base, sources=["graph_file_input"], targets=[], all_classes=True, compression=comp)
    for ex in near_misses(["shape", "cons", "all"]):
        yield dict(base, sources=["raw_graph"], targets=[], all_classes=True, examples=ex)
    for fmt in list(near_misses(["ShEx", "Shacl"])) + [None]:
        for sink in ("string", "file", "uml"):
            yield dict(base, sources=["raw_graph"], targets=[], all_classes=True, call={"thr": 0, "fmt": fmt, "sink": sink})
    for thr in (-1e-9, -1e-300, 1 + 1e-9, 1.0000000000000002, 2, -1, 1e-300, 1 - 1e-16, 0.0, 1.0):
        yield dict(base, sources=["raw_graph"], targets=[], all_classes=True, call={"thr": thr, "fmt": "ShEx", "sink": "string"})
    # (E) call-time checks on ONE Shaper: every call of a sequence is judged on its own arguments (an invalid call rejected once
    # must be rejected again; a valid call after an invalid one must succeed)
    kinds = [{"thr": 0.5, "fmt": "ShEx", "sink": "string"}, {"thr": 1.5, "fmt": "ShEx", "sink": "string"},
             {"thr": -0.25, "fmt": "ShEx", "sink": "string"}, {"thr": 1, "fmt": "Shacl", "sink": "string"},
             {"thr": 0.5, "fmt": "bogus", "sink": "string"}, {"thr": 0, "fmt": "ShEx", "sink": "none"}]
    for L in (2, 3):
        for seq in itertools.product(range(len(kinds)), repeat=L):
            if tier == "quick" and L == 3 and len(set(seq)) == 3 and (seq[0] + seq[1] + seq[2]) % 3:
                continue
            yield dict(base, sources=["raw_graph"], targets=[], all_classes=True, calls=[kinds[i] for i in seq])
    # (C) call-time checks
    for thr in (-0.01, 0, 1, 1.01):
        for fmt in ("ShEx", "Shacl", "bogus"):
            for sink in ("none", "string", "file", "both", "uml", "uml+string"):
                yield dict(base, sources=["raw_graph"], targets=[], all_classes=True, call={"thr": thr, "fmt": fmt, "sink": sink})
