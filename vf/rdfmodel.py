"""Abstract RDF terms / triples used by every generator and oracle.

A term is a JSON-friendly list (tuples after `T()`):
   ["iri", "<absolute iri>"]
   ["bnode", "_:label"]
   ["lit", lexical, datatype-iri, lang]        lang == "" unless language-tagged
A triple is [s, p, o] with p a plain IRI string.

Nothing in here imports the code under test.
"""
XSD = "http://www.w3.org/2001/XMLSchema#"
RDF = "http://www.w3.org/1999/02/22-rdf-syntax-ns#"
RDF_TYPE = RDF + "type"
XSD_STRING = XSD + "string"
XSD_INTEGER = XSD + "integer"
LANGSTRING = RDF + "langString"


def iri(x):
    return ("iri", x)


def bnode(x):
    return ("bnode", x if x.startswith("_:") else "_:" + x)


def lit(lex, dt=XSD_STRING, lang=""):
    if lang:
        dt = LANGSTRING
    return ("lit", lex, dt, lang)


def T(term):
    """JSON list -> hashable tuple"""
    return tuple(term)


def triples_from_json(lst):
    return [(tuple(s), p, tuple(o)) for s, p, o in lst]


def triples_to_json(triples):
    return [[list(s), p, list(o)] for s, p, o in triples]


def node_id(t):
    return t[1]


def is_lit(t):
    return t[0] == "lit"


def lit_datatype(t):
    return t[2]


# ------------------------------------------------------------------ writers

def esc_lex(lex):
    """N-Triples / Turtle escaping of a lexical form (STRING_LITERAL_QUOTE)."""
    out = []
    for ch in lex:
        if ch == '"':
            out.append('\\"')
        elif ch == '\\':
            out.append('\\\\')
        elif ch == '\n':
            out.append('\\n')
        elif ch == '\r':
            out.append('\\r')
        elif ch == '\t':
            out.append('\\t')
        else:
            out.append(ch)
    return "".join(out)


def nt_term(t, explicit_string=False):
    if t[0] == "iri":
        return "<%s>" % t[1]
    if t[0] == "bnode":
        return t[1]
    _, lex, dt, lang = t
    body = '"%s"' % esc_lex(lex)
    if lang:
        return body + "@" + lang
    if dt == XSD_STRING and not explicit_string:
        return body
    return body + "^^<%s>" % dt


def to_nt(triples, final_newline=True):
    lines = ["%s <%s> %s ." % (nt_term(s), p, nt_term(o)) for s, p, o in triples]
    return "\n".join(lines) + ("\n" if final_newline and lines else "")


def to_tsv(triples):
    lines = ["%s\t<%s>\t%s" % (nt_term(s), p, nt_term(o)) for s, p, o in triples]
    return "\n".join(lines) + ("\n" if lines else "")


def to_simple_turtle(triples, prefixes=None, bare_integers=False, layout=0):
    """House-style Turtle: one statement per line, blanks around every token, full IRIs
    unless a prefix applies (prefix -> namespace dict).  bare_integers: xsd:integer literals are written in Turtle's
    shorthand (-5, +3, 42) - the same literal, another spelling."""
    import re as _re
    prefixes = prefixes or {}
    lines = ["@prefix %s: <%s> ." % (k, v) for k, v in prefixes.items()]

    def q(t):
        if bare_integers and t[0] == "lit" and t[2] == XSD + "integer" and not t[3] and _re.fullmatch(r"[+-]?[0-9]+", t[1]):
            return t[1]
        if t[0] == "iri":
            for k, v in prefixes.items():
                if t[1].startswith(v):
                    loc = t[1][len(v):]
                    if loc and all(c.isalnum() or c == "_" for c in loc):
                        return "%s:%s" % (k, loc)
        return nt_term(t)
    # layout 0: one statement per line; 1: the final dot on a line of its own; 2: the object (and the dot) on the next line;
    # 3: every token on a line of its own
    fmt = ["%s %s %s .", "%s %s %s\n.", "%s %s\n   %s .", "%s\n%s\n%s\n."][layout % 4]
    for s, p, o in triples:
        lines.append(fmt % (q(s), q(("iri", p)), q(o)))
    return "\n".join(lines) + "\n"


# ------------------------------------------------------------------ rdflib bridge (generator cross-check / serialisations)

def to_rdflib(triples):
    import rdflib
    g = rdflib.Graph()
    for s, p, o in triples:
        g.add((_rl(s), rdflib.URIRef(p), _rl(o)))
    return g


def _rl(t):
    import rdflib
    if t[0] == "iri":
        return rdflib.URIRef(t[1])
    if t[0] == "bnode":
        return rdflib.BNode(t[1][2:])
    _, lex, dt, lang = t
    if lang:
        return rdflib.Literal(lex, lang=lang)
    if dt == XSD_STRING:
        return rdflib.Literal(lex)
    return rdflib.Literal(lex, datatype=rdflib.URIRef(dt))


def from_rdflib_term(x):
    import rdflib
    if isinstance(x, rdflib.URIRef):
        return ("iri", str(x))
    if isinstance(x, rdflib.BNode):
        return ("bnode", "_:" + str(x))
    if x.language:
        return ("lit", str(x), LANGSTRING, str(x.language))
    return ("lit", str(x), str(x.datatype) if x.datatype else XSD_STRING, "")


def from_rdflib(g):
    return [(from_rdflib_term(s), str(p), from_rdflib_term(o)) for s, p, o in g]


def kind_triple(tr, with_bnode_label=True, with_lex=False):
    """Projection of a triple onto what C06/C07 compare: node kinds, IRIs, bnode labels, literal datatype."""
    def pr(t):
        if t[0] == "iri":
            return ("iri", t[1])
        if t[0] == "bnode":
            return ("bnode", t[1] if with_bnode_label else "")
        return ("lit", t[2]) + ((t[1],) if with_lex else ())
    s, p, o = tr
    return (pr(s), p, pr(o))
