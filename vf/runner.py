"""Generic runner: pinned reproducers -> saved replays -> generated search (Hypothesis, sharded over
processes) -> optional enumerated sub-space; evidence file; VIOLATION / KNOWN-FINDING lines; exit codes.

exit 0  property held on everything explored (known findings listed)
exit 1  VIOLATION property=<id> replay=<path>
exit 2  harness error (never reported as a violation)
"""
import os
import sys
import json
import time
import hashlib
import importlib
import traceback
import multiprocessing
from collections import Counter

VERIF = os.path.dirname(os.path.dirname(os.path.abspath(__file__)))
# Sensitivity runs (a patched scratch copy named by VERIF_REPO) set VF_OUT so that their evidence and V- replays do not
# overwrite those of the real tree; registered commands never set it.
OUT = os.environ.get("VF_OUT") or VERIF
NPROC = int(os.environ.get("VERIF_NPROC", "16"))


# ---------------------------------------------------------------- outcomes

class Outcome(object):
    __slots__ = ("status", "labels", "nontrivial", "detail", "kf")

    def __init__(self, status, labels=(), nontrivial=False, detail="", kf=None):
        self.status = status
        self.labels = tuple(labels)
        self.nontrivial = nontrivial
        self.detail = detail
        self.kf = kf

    def __repr__(self):
        return "Outcome(%s%s nontrivial=%s labels=%s %s)" % (
            self.status, ("/" + self.kf) if self.kf else "", self.nontrivial, list(self.labels), self.detail[:400])


def ok(labels=(), nontrivial=False):
    return Outcome("ok", labels, nontrivial)


def violation(detail, labels=(), nontrivial=True):
    return Outcome("violation", labels, nontrivial, detail)


def known(kf, detail="", labels=(), nontrivial=True):
    return Outcome("known", labels, nontrivial, detail, kf)


def discard(reason, labels=()):
    return Outcome("discard", tuple(labels) + ("discard:" + reason,), False, reason)


# ---------------------------------------------------------------- helpers

def case_hash(case):
    return hashlib.sha1(json.dumps(case, sort_keys=True, default=str).encode()).digest()[:10]


def mix_seed(seed, pid, w):
    return int(hashlib.sha256(("%s:%s:%s" % (seed, pid, w)).encode()).hexdigest()[:12], 16)


def load_module(pid):
    return importlib.import_module("vf.props.%s" % pid.lower())


def load_known(pid):
    path = os.path.join(VERIF, "known_findings.json")
    if not os.path.exists(path):
        return []
    data = json.load(open(path))
    return [f for f in data.get("findings", []) if f.get("property") == pid]


def load_case_file(path):
    if not os.path.isabs(path):
        path = os.path.join(VERIF, path)
    d = json.load(open(path))
    return d["case"] if isinstance(d, dict) and "case" in d else d


class Stats(object):
    def __init__(self):
        self.evaluations = 0
        self.status = Counter()
        self.labels = Counter()
        self.known = Counter()
        self.nontrivial = set()
        self.samples = []
        self.failures = []          # (size, case, detail)
        self.first_failure_at = None
        self.skipped_wall = 0
        self.errors = []
        self.known_cases = {}

    def record(self, case, out, keep_samples=2):
        self.evaluations += 1
        self.status[out.status] += 1
        for lab in out.labels:
            self.labels[lab] += 1
        if out.status == "known":
            self.known[out.kf] += 1
            if os.environ.get("VF_SAVE_KNOWN") or out.kf not in self.known_cases:
                size = len(json.dumps(case, default=str))
                cur = self.known_cases.get(out.kf)
                if cur is None or size < cur[0]:
                    self.known_cases[out.kf] = (size, case, out.detail)
        if out.nontrivial and out.status != "discard":
            self.nontrivial.add(case_hash(case))
            if len(self.samples) < keep_samples:
                self.samples.append(case)
        if out.status == "violation":
            size = len(json.dumps(case, default=str))
            self.failures.append((size, case, out.detail))
            self.failures.sort(key=lambda x: x[0])
            del self.failures[3:]
            if self.first_failure_at is None:
                self.first_failure_at = time.time()

    def export(self):
        return dict(evaluations=self.evaluations, status=dict(self.status), labels=dict(self.labels),
                    known=dict(self.known), nontrivial=self.nontrivial, samples=self.samples,
                    failures=self.failures, skipped_wall=self.skipped_wall, errors=self.errors,
                    known_cases=self.known_cases)


class _Violation(Exception):
    pass


def _safe_check(mod, case):
    return mod.check(case)


def _worker(args):
    pid, tier, seed, w, W, n_examples, wall_budget, shrink_budget = args
    t0 = time.time()
    stats = Stats()
    try:
        mod = load_module(pid)
        import hypothesis
        from hypothesis import given, settings, HealthCheck, Phase

        # ---- enumerated sub-space first (deterministic, sharded by index)
        enum = getattr(mod, "enumerate_cases", None)
        if enum is not None:
            for idx, case in enumerate(enum(tier)):
                if idx % W != w:
                    continue
                if time.time() - t0 > wall_budget:
                    stats.skipped_wall += 1
                    continue
                out = _safe_check(mod, case)
                stats.record(case, out)
        custom = getattr(mod, "run_shard", None)
        if custom is not None:
            custom(tier, seed, w, W, stats, t0 + wall_budget)

        strat = mod.strategy(tier) if hasattr(mod, "strategy") and n_examples > 0 else None
        if strat is not None:
            state = {"n": 0}

            @hypothesis.seed(mix_seed(seed, pid, w))
            @settings(max_examples=n_examples, database=None, deadline=None, derandomize=False,
                      report_multiple_bugs=False, suppress_health_check=list(HealthCheck),
                      phases=[Phase.generate, Phase.shrink], print_blob=False,
                      verbosity=hypothesis.Verbosity.quiet)
            @given(strat)
            def prop(case):
                now = time.time()
                if stats.first_failure_at is not None and now - stats.first_failure_at > shrink_budget:
                    # shrink budget exhausted: let the shrinker collapse quickly; the recorded
                    # real failures (stats.failures) are what is reported.
                    raise _Violation("shrink budget exhausted")
                if stats.first_failure_at is None and now - t0 > wall_budget:
                    stats.skipped_wall += 1
                    return
                out = _safe_check(mod, case)
                stats.record(case, out)
                if out.status == "violation":
                    raise _Violation(out.detail)

            try:
                prop()
            except _Violation:
                pass
            except BaseException as e:  # hypothesis Flaky/Unsatisfiable or an oracle bug
                if not stats.failures:
                    stats.errors.append("worker %d: %s\n%s" % (w, repr(e), traceback.format_exc()[-3000:]))
    except BaseException as e:
        stats.errors.append("worker %d: %s\n%s" % (w, repr(e), traceback.format_exc()[-3000:]))
    return stats.export()


def _merge(results):
    tot = dict(evaluations=0, status=Counter(), labels=Counter(), known=Counter(), nontrivial=set(), samples=[],
               failures=[], skipped_wall=0, errors=[], known_cases={})
    for r in results:
        tot["evaluations"] += r["evaluations"]
        tot["status"].update(r["status"])
        tot["labels"].update(r["labels"])
        tot["known"].update(r["known"])
        tot["nontrivial"] |= r["nontrivial"]
        tot["samples"].extend(r["samples"])
        tot["failures"].extend(r["failures"])
        tot["skipped_wall"] += r["skipped_wall"]
        tot["errors"].extend(r["errors"])
        for k, v in r.get("known_cases", {}).items():
            if k not in tot["known_cases"] or v[0] < tot["known_cases"][k][0]:
                tot["known_cases"][k] = v
    tot["failures"].sort(key=lambda x: x[0])
    return tot


def write_replay(pid, case, detail, tier, seed, prefix="V"):
    d = os.path.join(OUT, "replays", pid)
    os.makedirs(d, exist_ok=True)
    h = hashlib.sha1(json.dumps(case, sort_keys=True, default=str).encode()).hexdigest()[:12]
    path = os.path.join(d, "%s-%s.json" % (prefix, h))
    with open(path, "w") as f:
        json.dump({"property": pid, "detail": detail, "found": {"tier": tier, "seed": seed}, "case": case}, f,
                  indent=1, default=str)
    return os.path.relpath(path, OUT) if OUT == VERIF else path


def write_evidence(pid, tier, seed, mod, tot, wall, violations, extra=None):
    os.makedirs(os.path.join(OUT, "evidence"), exist_ok=True)
    n = max(tot["evaluations"], 1)
    cov = dict(
        evaluations=tot["evaluations"],
        distinct_nontrivial=len(tot["nontrivial"]),
        rule=getattr(mod, "RULE", ""),
        samples=tot["samples"][:5],
        classes={k: v for k, v in sorted(tot["labels"].items())},
        class_rates={k: round(v / n, 4) for k, v in sorted(tot["labels"].items())},
        outcome_counts=dict(tot["status"]),
        excluded_known=dict(tot["known"]),
        skipped_by_wall_budget=tot["skipped_wall"],
        exhaustive=bool(getattr(mod, "EXHAUSTIVE", {}).get(tier, False)) if isinstance(getattr(mod, "EXHAUSTIVE", None), dict) else False,
    )
    if extra:
        cov.update(extra)
    ev = dict(property_id=pid, tier=tier, seed=seed, level="exploration", coverage=cov,
              assumptions=list(getattr(mod, "ASSUMPTIONS", [])), wall_s=round(wall, 2), violations=violations)
    with open(os.path.join(OUT, "evidence", "%s.json" % pid), "w") as f:
        json.dump(ev, f, indent=1, default=str)


def run_fuzz_supplement(pid, mod, tier, seed, tot):
    """atheris / libFuzzer campaign over the module's own strategy and oracle (vf/fuzz.py), sharded over processes with
    different libFuzzer seeds.  A violation found there is re-checked here, without atheris, before it is believed."""
    cfg = (getattr(mod, "FUZZ", None) or {}).get(tier)
    if not cfg:
        return None
    import subprocess
    import tempfile
    import shutil
    deps = os.path.join(VERIF, ".deps")
    probe = subprocess.run([sys.executable, "-c", "import sys; sys.path.append(%r); import atheris" % deps], capture_output=True)
    if probe.returncode != 0:
        return {"skipped": "atheris is not importable (run ./setup.sh)"}
    shards = min(NPROC, cfg.get("shards", NPROC))
    base = tempfile.mkdtemp(prefix="vffuzz.")
    t0 = time.time()
    procs = []
    env = dict(os.environ, PYTHONPATH=VERIF + os.pathsep + os.environ.get("PYTHONPATH", ""))
    for k in range(shards):
        od = os.path.join(base, "s%d" % k)
        lf_seed = mix_seed(seed, pid + ":fuzz", k) % (2 ** 31 - 1) or 1
        procs.append((od, subprocess.Popen([sys.executable, "-W", "ignore", "-m", "vf.fuzz", pid, tier, str(lf_seed), str(cfg["runs"]), od],
                                           stdout=subprocess.DEVNULL, stderr=subprocess.DEVNULL, env=env, cwd=VERIF)))
    info = {"engine": "atheris (libFuzzer) driving the property's Hypothesis strategy through fuzz_one_input; oracle inside the target",
            "shards": shards, "runs_per_shard": cfg["runs"], "evaluations": 0, "executed_units": 0, "distinct_nontrivial": 0,
            "status": Counter(), "labels": Counter(), "known": Counter(), "unreproduced": 0, "incomplete_shards": 0}
    limit = cfg.get("wall", 1800)
    for od, pr in procs:
        try:
            pr.wait(timeout=max(5, limit - (time.time() - t0)))
        except subprocess.TimeoutExpired:
            pr.kill()
            pr.wait()
            info["incomplete_shards"] += 1
        try:
            st = json.load(open(os.path.join(od, "stats.json")))
        except Exception:
            info["incomplete_shards"] += 1
            continue
        info["evaluations"] += st["evaluations"]
        info["executed_units"] += st.get("executed_units", 0)
        info["distinct_nontrivial"] += st.get("nontrivial", 0)
        info["status"].update(st["status"])
        info["labels"].update(st["labels"])
        info["known"].update(st["known"])
        if "sample" in st and "sample" not in info:
            info["sample"] = st["sample"]
        vp = os.path.join(od, "violation.json")
        if os.path.exists(vp):
            case = json.load(open(vp))["case"]
            out = mod.check(case)
            if out.status == "violation":
                tot["failures"].append((len(json.dumps(case, default=str)), case, out.detail))
                tot["failures"].sort(key=lambda x: x[0])
            else:
                info["unreproduced"] += 1
    shutil.rmtree(base, ignore_errors=True)
    for k in ("status", "labels", "known"):
        info[k] = dict(info[k])
    info["wall_s"] = round(time.time() - t0, 1)
    return info


def run(pid, tier="quick", seed=1, replay=None):
    t0 = time.time()
    mod = load_module(pid)
    if replay is not None:
        case = load_case_file(replay)
        out = mod.check(case)
        print("replay %s -> %r" % (replay, out))
        if out.status == "violation":
            print("VIOLATION property=%s replay=%s" % (pid, replay))
            return 1
        if out.status == "known":
            print("KNOWN-FINDING: property=%s %s" % (pid, out.kf))
        return 0

    # ---- oracle self-tests (exit 2 when the oracle itself is broken)
    st = getattr(mod, "selftest", None)
    if st is not None:
        try:
            st()
        except Exception:
            print("HARNESS-ERROR: self-test of %s failed\n%s" % (pid, traceback.format_exc()))
            return 2

    violations = []     # (replay path, detail)
    known_lines = []
    pinned_info = []
    # ---- pinned reproducers of known / fixed findings
    for f in load_known(pid):
        rp = f.get("reproducer")
        if not rp:
            continue
        try:
            case = load_case_file(rp)
            out = mod.check(case)
        except Exception:
            print("HARNESS-ERROR: reproducer %s\n%s" % (rp, traceback.format_exc()))
            return 2
        pinned_info.append({"finding": f["id"], "status": f["status"], "outcome": out.status, "kf": out.kf})
        if f["status"] == "known":
            if out.status == "known" and out.kf == f["id"]:
                known_lines.append("KNOWN-FINDING: property=%s %s: %s" % (pid, f["id"], f.get("what", "")))
            elif out.status == "violation":
                violations.append((rp, "pinned reproducer of %s fails in a way the finding does not describe: %s" % (f["id"], out.detail)))
            elif out.status == "known":
                known_lines.append("KNOWN-FINDING: property=%s %s: %s" % (pid, out.kf, "(seen on the reproducer of %s)" % f["id"]))
            else:
                print("NOTE: known finding %s no longer reproduces on its pinned input (%s)" % (f["id"], out.status))
        else:  # fixed: plain regression input
            if out.status == "violation":
                violations.append((rp, "regression of fixed finding %s: %s" % (f["id"], out.detail)))
            elif out.status == "known" and out.kf == f["id"]:
                violations.append((rp, "regression of fixed finding %s" % f["id"]))
    # ---- saved regression inputs
    rdir = os.path.join(VERIF, "replays", pid)
    saved = 0
    if os.path.isdir(rdir):
        for fn in sorted(os.listdir(rdir)):
            if not fn.startswith("R-") or not fn.endswith(".json"):
                continue
            saved += 1
            rp = os.path.join("replays", pid, fn)
            try:
                out = mod.check(load_case_file(rp))
            except Exception:
                print("HARNESS-ERROR: replay %s\n%s" % (rp, traceback.format_exc()))
                return 2
            if out.status == "violation":
                violations.append((rp, out.detail))

    # ---- generated search
    budget = mod.BUDGET[tier]
    n_total = budget["examples"]
    W = min(NPROC, budget.get("workers", NPROC))
    wall_budget = float(os.environ.get("VERIF_WALL", budget.get("wall", 150 if tier == "quick" else 3600)))
    shrink_budget = budget.get("shrink", 20 if tier == "quick" else 120)
    per = (n_total + W - 1) // W if n_total else 0
    jobs = [(pid, tier, seed, w, W, per, wall_budget, shrink_budget) for w in range(W)]
    if W == 1:
        results = [_worker(jobs[0])]
    else:
        ctx = multiprocessing.get_context("fork")
        with ctx.Pool(W) as pool:
            results = pool.map(_worker, jobs, chunksize=1)
    tot = _merge(results)

    fuzz_info = run_fuzz_supplement(pid, mod, tier, seed, tot)

    listed = {f["id"] for f in load_known(pid) if f.get("status") == "known"}
    for k, (size, kcase, kdetail) in tot["known_cases"].items():
        if os.environ.get("VF_SAVE_KNOWN"):
            write_replay(pid, kcase, kdetail, tier, seed, prefix="CAND-" + k)
        if k not in listed and not getattr(mod, "SURVEY", False):
            # a case was excused under a finding that known_findings.json does not list for this property: not excused
            tot["failures"].append((size, kcase, "classified as %s, which known_findings.json does not list for %s: %s" % (k, pid, kdetail)))
            tot["failures"].sort(key=lambda x: x[0])
    if tot["errors"]:
        print("HARNESS-ERROR in %s:\n%s" % (pid, "\n".join(tot["errors"][:3])))
        return 2

    if tot["failures"]:
        size, case, detail = tot["failures"][0]
        shr = getattr(mod, "shrink", None)
        if shr is not None:
            try:
                case2 = shr(case)
                o2 = mod.check(case2)
                if o2.status == "violation":
                    case, detail = case2, o2.detail
            except Exception:
                pass
        path = write_replay(pid, case, detail, tier, seed)
        violations.append((path, detail))

    # ---- vacuity guards
    floors = getattr(mod, "FLOORS", {})
    n = max(tot["evaluations"], 1)
    low = []
    if not tot["failures"]:
        for lab, fl in floors.items():
            if tot["labels"].get(lab, 0) / n < fl:
                low.append("%s: %.4f < %.4f" % (lab, tot["labels"].get(lab, 0) / n, fl))
    wall = time.time() - t0
    extra = dict(pinned=pinned_info, saved_replays=saved, workers=W)
    if fuzz_info is not None:
        extra["coverage_guided_supplement"] = fuzz_info
    fin = getattr(mod, "finalize", None)
    if fin is not None:
        extra.update(fin(tot) or {})
    write_evidence(pid, tier, seed, mod, tot, wall, len(violations), extra)

    for line in known_lines:
        print(line)
    print("%s %s seed=%s: %d evaluations, %d distinct non-trivial, outcomes=%s, known=%s, wall=%.1fs" % (
        pid, tier, seed, tot["evaluations"], len(tot["nontrivial"]), dict(tot["status"]), dict(tot["known"]), wall))
    if violations:
        for path, detail in violations:
            print("detail: %s" % detail[:1500])
            print("VIOLATION property=%s replay=%s" % (pid, path))
        return 1
    if low:
        print("HARNESS-ERROR: generator below its vacuity floors: %s" % "; ".join(low))
        return 2
    if len(tot["nontrivial"]) < 2:
        print("HARNESS-ERROR: fewer than 2 distinct non-trivial cases")
        return 2
    return 0
