"""Reference profiler: recomputes, directly from abstract triples and a selection (shape key -> ordered
node ids), everything sheXer reports.  Shares no code with sheXer.

kinds:  ('dt', datatype-iri) | ('kind','IRI') | ('kind','BNode') | ('kind','NONLITERAL') |
        ('class', value-id)  (value of the instantiation property) | ('ref', shape label)
dp:     ('d', predicate) direct  |  ('i', predicate) inverse
"""
from collections import defaultdict
from .rdfmodel import RDF_TYPE

SHAPES_NS = "http://weso.es/shapes/"


def local_name(iri):
    lp = iri
    if "#" in lp and lp[-1] != "#":
        lp = lp[lp.rfind("#") + 1:]
    if "/" in lp:
        lp = lp[lp.rfind("/") + 1:] if lp[-1] != "/" else lp[lp[:-1].rfind("/") + 1:]
    return lp


def class_label(c, shapes_ns=SHAPES_NS):
    return shapes_ns + local_name(c)


def select_by_classes(triples, inst_prop=RDF_TYPE, targets=None, cap=None):
    """ordered selection: class id -> list of node ids (document order of the instantiation triples).
    targets None = every class that occurs.  cap = at most cap instances per class (first in document order)."""
    sel = {}
    for s, p, o in triples:
        if p == inst_prop and o[0] in ("iri", "bnode") and (targets is None or o[1] in targets):
            lst = sel.setdefault(o[1], [])
            if s[1] not in lst and (cap is None or cap < 0 or len(lst) < cap):
                lst.append(s[1])
    return sel


class Model(object):
    def __init__(self, triples, sel, label_of, inst_prop=RDF_TYPE, inverse=False):
        self.sel = sel
        self.inst_prop = inst_prop
        self.N = {S: len(v) for S, v in sel.items()}
        member = defaultdict(list)
        for S, nodes in sel.items():
            for n in nodes:
                member[n].append(S)
        self.member = member
        per = defaultdict(lambda: defaultdict(lambda: defaultdict(int)))  # node -> dp -> kind -> count
        for s, p, o in triples:
            sid = s[1]
            if sid in member:
                if p == inst_prop:
                    kinds = [("class", o[1])]
                elif o[0] == "lit":
                    kinds = [("dt", o[2])]
                else:
                    k = "IRI" if o[0] == "iri" else "BNode"
                    kinds = [("kind", k), ("kind", "NONLITERAL")] + [("ref", label_of[T]) for T in member.get(o[1], [])]
                for k in kinds:
                    per[sid][("d", p)][k] += 1
            if inverse and o[0] != "lit" and o[1] in member:
                if p == inst_prop:
                    kinds = [("class", sid)]
                else:
                    k = "IRI" if s[0] == "iri" else "BNode"
                    kinds = [("kind", k), ("kind", "NONLITERAL")]
                    if s[0] == "iri":
                        kinds += [("ref", label_of[T]) for T in member.get(sid, [])]
                for k in kinds:
                    per[o[1]][("i", p)][k] += 1
        self.per = per
        self.hist = defaultdict(lambda: defaultdict(lambda: defaultdict(lambda: defaultdict(int))))
        self.plus = defaultdict(lambda: defaultdict(lambda: defaultdict(int)))
        self.both = defaultdict(lambda: defaultdict(bool))  # S -> dp -> some instance has IRI and BNode values
        for S, nodes in sel.items():
            for n in nodes:
                for dp, kinds in per[n].items():
                    for k, cnt in kinds.items():
                        self.hist[S][dp][k][cnt] += 1
                        self.plus[S][dp][k] += 1
                    if ("kind", "IRI") in kinds and ("kind", "BNode") in kinds:
                        self.both[S][dp] = True

    # ---- expectations
    def expected_keys(self, S, t):
        """(dp, value class) keys whose 'at least one' frequency is >= t (float semantics n/N >= t)."""
        keys = set()
        N = self.N[S]
        if N == 0:
            return keys
        for dp, kinds in self.plus[S].items():
            for k, n in kinds.items():
                if n / N >= t:
                    if k[0] in ("dt", "class"):
                        keys.add((dp, k))
                    elif k == ("kind", "NONLITERAL"):
                        keys.add((dp, ("nonliteral",)))
        return keys

    def count(self, S, dp, kind, card):
        if card == "+":
            return self.plus[S][dp].get(kind, 0)
        return self.hist[S][dp].get(kind, {}).get(int(card), 0)

    def max_card(self, S, dp, kind):
        h = self.hist[S][dp].get(kind, {})
        return max(h) if h else 0

    def kinds_present(self, S, dp):
        return dict(self.plus[S][dp])

    def mixed_kind_signature(self, S, dp, t):
        """C02-MIXEDKIND: IRI and BNode kinds both present, each below t (and every shape reference
        below t) although the union reaches t."""
        N = self.N[S]
        pl = self.plus[S][dp]
        if not N:
            return False
        union = pl.get(("kind", "NONLITERAL"), 0)
        if union / N < t:
            return False
        for k, n in pl.items():
            if k[0] in ("kind", "ref") and k != ("kind", "NONLITERAL") and n / N >= t:
                return False
        return True

    # ---- ties (C08/C09): comparisons sheXer makes whose outcome depends on arrival order
    def has_tie(self, S, dp, t, keep_less_specific=True):
        N = self.N[S]
        if not N:
            return False
        pl = self.plus[S][dp]
        alts = [(k, n) for k, n in pl.items() if k[0] in ("kind", "ref") and k != ("kind", "NONLITERAL")]
        # (a) two alternatives of the non-literal merge with equal instance counts (of the candidates
        #     that represent them); conservatively: any two alternatives sharing a plus-count or sharing
        #     any exact-cardinality count.
        cnts = defaultdict(int)
        for k, n in alts:
            reps = {n} | set(self.hist[S][dp][k].values())
            for r in reps:
                cnts[r] += 1
        if any(v > 1 for v in cnts.values()):
            return True
        # (b) two exact cardinalities of one kind share the same frequency
        for k in pl:
            vals = list(self.hist[S][dp][k].values())
            if len(vals) != len(set(vals)):
                return True
            if pl[k] in vals and len(vals) > 1:
                return True
        return False
