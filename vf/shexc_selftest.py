"""The ShExC reader must accept every golden .shex file of the repository (guards against a reader that is
stricter than the language sheXer is entitled to use).  Files produced with examples_mode are read leniently."""
import glob
import os
from . import shexc, sut

_done = [False]


def run():
    if _done[0]:
        return
    files = sorted(glob.glob(os.path.join(sut.REPO, "test", "t_files", "**", "*.shex"), recursive=True))
    bad = []
    for f in files:
        txt = open(f, encoding="utf-8").read()
        try:
            shexc.read(txt, lenient_examples=("example" in os.path.basename(f)))
        except Exception as e:
            bad.append((f, repr(e)))
    if len(files) < 50:
        raise RuntimeError("golden files not found under %s" % sut.REPO)
    if bad:
        raise RuntimeError("ShExC reader rejects golden files: %s" % bad[:3])
    _done[0] = True
