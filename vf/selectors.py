"""Direct evaluator of shape-map node selectors on abstract triples (no rdflib, no sheXer code).

selector specs (JSON-friendly):
  {"kind": "node", "iri": I}
  {"kind": "focus", "pos": "s"|"o", "p": P|"a", "other": I|"_"}
  {"kind": "sparql", "distinct": bool, "patterns": [[s, p, o], ...]}    terms: "?v" (answer), "?x"/"?y", "a", an IRI, or '"lexical form"' (a plain string literal)
"""
from .rdfmodel import RDF_TYPE


def _term_id(t):
    return t[1] if t[0] != "lit" else ("lit",) + tuple(t[1:])


def evaluate(sel, triples):
    """returns list of answers (each a term tuple), duplicates preserved as a SPARQL engine would return them"""
    if sel["kind"] == "node":
        return [("iri", sel["iri"])]
    if sel["kind"] == "focus":
        p = RDF_TYPE if sel["p"] == "a" else sel["p"]
        out = []
        for s, pp, o in triples:
            if pp != p:
                continue
            if sel["pos"] == "s":
                if sel["other"] == "_" or (o[0] == "iri" and o[1] == sel["other"]):
                    out.append(s)
            else:
                if sel["other"] == "_" or (s[0] == "iri" and s[1] == sel["other"]):
                    out.append(o)
        return out
    if sel["kind"] == "sparql":
        sols = [{}]
        for pat in sel["patterns"]:
            new = []
            for b in sols:
                for tr in triples:
                    b2 = dict(b)
                    okk = True
                    for term, val in zip(pat, (tr[0], ("iri", tr[1]), tr[2])):
                        if term == "a":
                            term = RDF_TYPE
                        if term.startswith("?"):
                            if term in b2:
                                if b2[term] != val:
                                    okk = False
                                    break
                            else:
                                b2[term] = val
                        elif term.startswith('"'):
                            # a plain string literal (lexical form between the quotes, compared character by character)
                            if val[0] != "lit" or val[3] or not val[2].endswith("#string") or val[1] != term[1:-1]:
                                okk = False
                                break
                        else:
                            if val[0] != "iri" or val[1] != term:
                                okk = False
                                break
                    if okk:
                        new.append(b2)
            sols = new
        ans = [b["?v"] for b in sols if "?v" in b]
        if sel.get("distinct"):
            seen = []
            for a in ans:
                if a not in seen:
                    seen.append(a)
            ans = seen
        return ans
    raise ValueError(sel)


def render_iri(iri, prefixes, style):
    """style 0: <iri>; 1: prefixed if possible"""
    if style == 1:
        for ns, p in prefixes.items():
            if iri.startswith(ns):
                loc = iri[len(ns):]
                if loc and all(c.isalnum() or c in "_:" for c in loc) and loc.isascii():
                    return "%s:%s" % (p, loc)
    return "<%s>" % iri


def render(sel, prefixes, styles, multiline_ok=False):
    """textual node selector; styles: list of ints consumed per IRI"""
    it = iter(list(styles) + [0] * 10)
    if sel["kind"] == "node":
        return render_iri(sel["iri"], prefixes, next(it))
    if sel["kind"] == "focus":
        p = "a" if sel["p"] == "a" else render_iri(sel["p"], prefixes, next(it))
        other = "_" if sel["other"] == "_" else render_iri(sel["other"], prefixes, next(it))
        return "{FOCUS %s %s}" % (p, other) if sel["pos"] == "s" else "{%s %s FOCUS}" % (other, p)
    var = sel.get("var", "v")       # the name of the answer variable is the user's choice (?v, ?Person, ?node_1 ...)
    pats = []
    for pat in sel["patterns"]:
        ts = []
        for t in pat:
            if t == "?v":
                ts.append("?" + var)
            elif t.startswith("?") or t == "a":
                ts.append(t)
            elif t.startswith('"'):
                ts.append("'%s'" % t[1:-1])        # single quotes: the whole query sits between double quotes in the shape map
            else:
                ts.append(render_iri(t, prefixes, next(it)))
        pats.append(" ".join(ts))
    # layouts of the query text: what follows the projected variable is a blank, the group itself, a tab, upper-case keywords,
    # or (JSON shape maps only, where a selector may span lines) a line break
    k = sel.get("layout", 0) % len(SPARQL_LAYOUTS)
    lay = SPARQL_LAYOUTS[k if (multiline_ok or k != NEWLINE_LAYOUT) else 1]
    lay = lay.replace("?v", "?" + var)
    return 'SPARQL "' + lay % ("distinct " if sel.get("distinct") else "", " . ".join(pats)) + '"'


SPARQL_LAYOUTS = ["select %s?v where { %s }", "select %s?v{ %s }", "select %s?v\twhere { %s }", "SELECT %s?v WHERE { %s }",
                  "select %s?v where{%s}", "select  %s?v  where  {  %s  }", "select %s?v\nwhere {\n %s\n}"]
NEWLINE_LAYOUT = 6
