"""Prototype: independent ShExC reader for the subset sheXer may emit (grammar-based) + figure reader."""
import re
from fractions import Fraction

class ShExCError(Exception): pass

_IRIREF = r'<[^\x00-\x20<>"{}|^`\\]*>'
_PN_PREFIX = r'(?:[A-Za-z](?:[\w.\-]*[\w\-])?)?'
_PN_LOCAL = r'(?:[\w:]|%[0-9A-Fa-f]{2}|\\[_~.\-!$&\'()*+,;=/?#@%])(?:(?:[\w:.\-]|%[0-9A-Fa-f]{2}|\\[_~.\-!$&\'()*+,;=/?#@%])*(?:[\w:\-]|%[0-9A-Fa-f]{2}|\\[_~.\-!$&\'()*+,;=/?#@%]))?'
_TOKEN = re.compile(r'''
   (?P<ws>\s+)
 | (?P<iri>%s)
 | (?P<string>"(?:[^"\\\n]|\\.)*"(?:@[A-Za-z]+(?:-[A-Za-z0-9]+)*|\^\^(?:%s|%s:(?:%s)?))?)
 | (?P<annot>//)
 | (?P<kw>\b(?:PREFIX|BASE|AND|OR|NOT|IRI|BNODE|BNode|NONLITERAL|LITERAL|CLOSED|EXTRA|EXTERNAL|a)\b(?![:\w]))
 | (?P<card>\{\s*\d+\s*(?:,\s*(?:\d+|\*)?\s*)?\})
 | (?P<pname>%s:(?:%s)?)
 | (?P<int>\d+)
 | (?P<punct>[{}\[\];^~.|()*+?@])
''' % (_IRIREF, _IRIREF, _PN_PREFIX, _PN_LOCAL, _PN_PREFIX, _PN_LOCAL), re.X)

def split_comment(line):
    """return (code, comment or None); '#' starts a comment unless inside <...> or "..." """
    in_iri = in_str = False; i = 0
    while i < len(line):
        c = line[i]
        if in_str:
            if c == '\\': i += 2; continue
            if c == '"': in_str = False
        elif in_iri:
            if c == '>': in_iri = False
        else:
            if c == '"': in_str = True
            elif c == '<': in_iri = True
            elif c == '#': return line[:i], line[i+1:]
        i += 1
    return line, None

def tokenize(text):
    toks = []; comments = {}
    for ln, raw in enumerate(text.split("\n")):
        code, com = split_comment(raw)
        if com is not None: comments[ln] = com.strip()
        pos = 0
        while pos < len(code):
            m = _TOKEN.match(code, pos)
            if not m: raise ShExCError("line %d: cannot tokenise %r" % (ln+1, code[pos:pos+30]))
            pos = m.end()
            k = m.lastgroup
            if k == 'ws': continue
            toks.append((k, m.group(k), ln))
    return toks, comments

class Doc:
    def __init__(self): self.prefixes = {}; self.prefix_decls = []; self.shapes = []
class ShapeD:
    def __init__(self): self.label=None; self.stem=None; self.line=None; self.end_line=None; self.constraints=[]; self.n_instances=None; self.annotations=[]
class TC:
    def __init__(self): self.inverse=False; self.pred=None; self.values=[]; self.card=(1,1); self.card_txt=""; self.first_line=None; self.last_line=None; self.annotations=[]; self.figure=None; self.facts=[]

class Parser:
    def __init__(self, text, lenient_examples=False):
        self.text = text; self.toks, self.comments = tokenize(text); self.i = 0; self.doc = Doc(); self.lenient = lenient_examples
    def peek(self, k=0): return self.toks[self.i+k] if self.i+k < len(self.toks) else (None, None, None)
    def next(self): t = self.peek(); self.i += 1; return t
    def expect(self, kind, val=None):
        t = self.next()
        if t[0] != kind or (val is not None and t[1] != val): raise ShExCError("line %s: expected %s %s, got %r" % (t[2] and t[2]+1, kind, val, t[:2]))
        return t
    def iri_of(self, t):
        if t[0] == 'iri': return t[1][1:-1]
        if t[0] == 'pname':
            p, l = t[1].split(':', 1)
            if p not in self.doc.prefixes: raise ShExCError("line %d: undeclared prefix %r" % (t[2]+1, p))
            return self.doc.prefixes[p] + re.sub(r'\\(.)', r'\1', l)
        if t[0] == 'kw' and t[1] == 'a': return "http://www.w3.org/1999/02/22-rdf-syntax-ns#type"
        raise ShExCError("line %s: expected IRI, got %r" % (t[2] and t[2]+1, t[:2]))
    def parse(self):
        if self.lenient:
            # examples_mode prints '// rdfs:comment ...' without declaring rdfs: (examples_mode documents are not ShExC
            # anyway and are excluded from C05); the lenient reader used by C17 tolerates it
            self.doc.prefixes.setdefault("rdfs", "http://www.w3.org/2000/01/rdf-schema#")
        while self.peek()[0] == 'kw' and self.peek()[1] in ('PREFIX', 'BASE'):
            self.next()
            pn = self.expect('pname'); iri = self.expect('iri')
            if not pn[1].endswith(':'): raise ShExCError("line %d: bad prefix decl" % (pn[2]+1))
            self.doc.prefix_decls.append((pn[1][:-1], iri[1][1:-1]))
            self.doc.prefixes[pn[1][:-1]] = iri[1][1:-1]
        while self.peek()[0] is not None:
            self.doc.shapes.append(self.shape_decl())
        self.attach_comments()
        return self.doc
    def shape_decl(self):
        s = ShapeD(); t = self.next(); s.label = self.iri_of(t); s.line = t[2]
        # optional  [<stem>~] AND
        if self.peek()[:2] == ('punct', '['):
            self.next(); st = self.expect('iri'); self.expect('punct', '~'); self.expect('punct', ']'); self.expect('kw', 'AND'); s.stem = st[1][1:-1]
        self.expect('punct', '{')
        while self.peek()[:2] != ('punct', '}'):
            tc = self.triple_constraint()
            s.constraints.append(tc)
            semi = False
            if self.peek()[:2] == ('punct', ';'):
                self.next(); semi = True
            if self.lenient:
                while self.peek()[0] == 'annot':
                    self.annotation(tc)
                    if self.peek()[:2] == ('punct', ';'):
                        self.next()
            if not semi and not self.lenient:
                break
        t = self.expect('punct', '}'); s.end_line = t[2]
        while self.peek()[0] == 'annot': self.annotation(s)
        return s
    def annotation(self, owner):
        self.next(); p = self.iri_of(self.next()); o = self.next()
        if o[0] in ('iri', 'pname'): v = ('iri', self.iri_of(o))
        elif o[0] == 'string': v = ('lit', o[1])
        else: raise ShExCError("line %d: bad annotation object %r" % (o[2]+1, o[:2]))
        owner.annotations.append((p, v))
    def triple_constraint(self):
        c = TC(); t = self.peek(); c.first_line = t[2]
        if t[:2] == ('punct', '^'): self.next(); c.inverse = True
        c.pred = self.iri_of(self.next())
        c.values = [self.value_atom()]
        while self.peek()[:2] == ('kw', 'OR'):
            self.next(); c.values.append(self.value_atom())
        t = self.peek()
        if t[0] == 'card':
            self.next(); m = re.match(r'\{\s*(\d+)\s*(?:(,)\s*(\d+|\*)?\s*)?\}', t[1]); lo = int(m.group(1))
            hi = lo if not m.group(2) else (None if m.group(3) in (None, '*') else int(m.group(3)))
            c.card = (lo, hi); c.card_txt = "{%d}" % lo if hi == lo else t[1]
        elif t[0] == 'punct' and t[1] in '*+?':
            self.next(); c.card = {'*': (0, None), '+': (1, None), '?': (0, 1)}[t[1]]; c.card_txt = t[1]
        c.last_line = self.toks[self.i-1][2]
        while self.peek()[0] == 'annot' and not self.lenient: self.annotation(c)
        return c
    def value_atom(self):
        t = self.next()
        if t[0] == 'kw' and t[1] in ('IRI', 'BNODE', 'BNode', 'NONLITERAL', 'LITERAL'): return ('kind', {'BNODE': 'BNode'}.get(t[1], t[1]))
        if t[:2] == ('punct', '.'): return ('kind', '.')
        if t[:2] == ('punct', '@'): return ('ref', self.iri_of(self.next()))
        if t[:2] == ('punct', '['):
            vals = []
            while self.peek()[:2] != ('punct', ']'):
                v = self.next()
                if v[0] in ('iri', 'pname'): vals.append(self.iri_of(v))
                elif v[0] == 'string': vals.append(v[1])
                else: raise ShExCError("line %d: bad value set member %r" % (v[2]+1, v[:2]))
            self.next()
            if not vals: raise ShExCError("empty value set")
            return ('valueset', tuple(vals))
        if t[0] in ('iri', 'pname'): return ('datatype', self.iri_of(t))
        raise ShExCError("line %s: bad value expression %r" % (t[2] and t[2]+1, t[:2]))
    # ---------- comments -> figures
    def attach_comments(self):
        for s in self.doc.shapes:
            com = self.comments.get(s.line)
            if com is not None:
                m = re.fullmatch(r'(\d+) instances?\.', com)
                if m: s.n_instances = int(m.group(1))
            cs = s.constraints
            for idx, c in enumerate(cs):
                com = self.comments.get(c.last_line)
                if com is not None: c.figure = parse_freq(com, self)
                stop = cs[idx+1].first_line if idx+1 < len(cs) else s.end_line
                for ln in range(c.last_line+1, stop):
                    if ln in self.comments:
                        c.facts.append(parse_fact(self.comments[ln], self))

_FREQ = r'(?:(?P<ratio>-?\d+(?:\.\d+)?(?:e-?\d+)?) %(?: \((?P<n1>\d+) instances?\))?\.?|(?P<n2>\d+) instances?\.)'
def parse_freq(com, p):
    m = re.fullmatch(_FREQ, com.strip())
    if not m: raise ShExCError("unreadable frequency comment %r" % com)
    return dict(ratio=m.group('ratio'), n=int(m.group('n1') or m.group('n2')) if (m.group('n1') or m.group('n2')) else None)
def parse_fact(com, p):
    m = re.fullmatch(_FREQ + r' obj: (?P<obj>.+?)\. Cardinality: (?P<card>\S+)', com.strip())
    if not m:
        m2 = re.fullmatch(_FREQ + r' with cardinality (?P<card>\S+)', com.strip())
        if m2: return dict(ratio=m2.group('ratio'), n=int(m2.group('n1') or m2.group('n2')) if (m2.group('n1') or m2.group('n2')) else None, obj=('choice',), card=m2.group('card'))
        raise ShExCError("unreadable fact comment %r" % com)
    obj = m.group('obj')
    if obj in ('IRI', 'BNode', 'NONLITERAL'): o = ('kind', obj)
    elif obj.startswith('@'):
        toks, _ = tokenize(obj[1:]); o = ('ref', p.iri_of(toks[0]))
    else:
        toks, _ = tokenize(obj); o = ('iri', p.iri_of(toks[0]))
    return dict(ratio=m.group('ratio'), n=int(m.group('n1') or m.group('n2')) if (m.group('n1') or m.group('n2')) else None, obj=o, card=m.group('card'))

def read(text, lenient_examples=False): return Parser(text, lenient_examples).parse()
