"""Coverage-guided supplement (atheris / libFuzzer) for any property module.

    python -m vf.fuzz <PID> <tier> <seed> <runs> <outdir>

libFuzzer mutates a byte string; Hypothesis' `fuzz_one_input` decodes it into a structured case of the property's own
strategy (so every generated input is in the property's domain and the semantic oracle `check(case)` sits inside the
target); coverage of the `shexer` package (instrumented at import time) is the feedback.  The first violation is written as
an ordinary replay file (<outdir>/violation.json) and the process stops; statistics go to <outdir>/stats.json.
Known findings are excluded by construction (check() classifies them), so the campaign continues behind them.
A libFuzzer campaign is pinned only approximately by -seed/-runs; the saved case is the reproducible unit
(`./check <PID> --replay <file>`), it needs neither atheris nor Hypothesis.
"""
import os
import sys
import json
import time


def main(argv):
    pid, tier, seed, runs, outdir = argv[0].upper(), argv[1], int(argv[2]), int(argv[3]), argv[4]
    os.makedirs(outdir, exist_ok=True)
    deps = os.path.join(os.path.dirname(os.path.dirname(os.path.abspath(__file__))), ".deps")
    if deps not in sys.path:
        sys.path.append(deps)
    import atheris
    repo = os.environ.get("VERIF_REPO", "/repo")
    sys.path.insert(0, repo)
    with atheris.instrument_imports(include=["shexer"], enable_loader_override=False):
        import shexer  # noqa
        import shexer.shaper  # noqa
        import shexer.io.graph.yielder.nt_triples_yielder  # noqa
        import shexer.io.graph.yielder.big_ttl_triples_yielder  # noqa
    from vf import runner
    mod = runner.load_module(pid)
    import hypothesis
    from hypothesis import given, settings, HealthCheck

    stats = {"evaluations": 0, "status": {}, "labels": {}, "known": {}, "nontrivial": 0, "t0": time.time()}
    seen_nt = set()
    strat = getattr(mod, "fuzz_strategy", mod.strategy)(tier)

    def dump():
        stats["wall_s"] = round(time.time() - stats["t0"], 1)
        stats["nontrivial"] = len(seen_nt)
        with open(os.path.join(outdir, "stats.json"), "w") as f:
            json.dump(stats, f)

    @settings(database=None, deadline=None, suppress_health_check=list(HealthCheck), derandomize=False)
    @given(strat)
    def prop(case):
        out = mod.check(case)
        stats["evaluations"] += 1
        stats["status"][out.status] = stats["status"].get(out.status, 0) + 1
        for lab in out.labels:
            stats["labels"][lab] = stats["labels"].get(lab, 0) + 1
        if out.status == "known":
            stats["known"][out.kf] = stats["known"].get(out.kf, 0) + 1
        if out.nontrivial and out.status != "discard":
            seen_nt.add(runner.case_hash(case))
            if "sample" not in stats:
                stats["sample"] = case
        if stats["evaluations"] % 2000 == 0:
            dump()
        if out.status == "violation":
            with open(os.path.join(outdir, "violation.json"), "w") as f:
                json.dump({"property": pid, "detail": out.detail, "found": {"tier": tier, "seed": seed, "engine": "atheris"},
                           "case": case}, f, indent=1, default=str)
            dump()
            sys.stdout.flush()
            os._exit(1)

    corpus = os.path.join(outdir, "corpus")
    os.makedirs(corpus, exist_ok=True)
    fargv = [sys.argv[0], "-runs=%d" % runs, "-seed=%d" % (seed or 1), "-max_len=4096", "-len_control=0", "-print_final_stats=1",
             "-artifact_prefix=%s/" % outdir, corpus]

    calls = [0]

    def target(data):
        calls[0] += 1
        stats["executed_units"] = calls[0]
        prop.hypothesis.fuzz_one_input(data)
        # atheris leaves the process without running finally/atexit handlers: write the statistics from inside
        if calls[0] % 1000 == 0 or calls[0] >= runs - 3:
            dump()

    atheris.Setup(fargv, target)
    try:
        atheris.Fuzz()
    finally:
        dump()


if __name__ == "__main__":
    main(sys.argv[1:])
