"""Hypothesis strategies for abstract RDF graphs (sound first: every graph is a duplicate-free list of
abstract triples, written out by rdfmodel's writers; then complete: the behaviours that matter are frequent
by construction).  Every random choice is a Hypothesis draw, so cases shrink and replay."""
from hypothesis import strategies as st
from .rdfmodel import XSD, RDF_TYPE, XSD_STRING, LANGSTRING

NS = ["http://ex.org/", "http://ex.org/ns/", "http://other.org/v#", "https://data.example/"]
CUSTOM_DT = "http://ex.org/dt/custom"
INST_PROPS = [RDF_TYPE, "http://ex.org/isA", "http://www.wikidata.org/prop/direct/P31"]


def class_iri(i):
    return NS[i % len(NS)] + "C%d" % i


def prop_iri(i):
    return NS[(i + 1) % 2] + "p%d" % i      # two namespaces: http://ex.org/ns/p0, http://ex.org/p1, ...


def node_iri(i, single_ns=False):
    return (NS[0] if single_ns else NS[(i // 2) % len(NS)]) + "n%d" % i


def untyped_iri(i):
    return NS[i % 2] + "u%d" % i


# IRIs whose scheme is not http(s): an IRI is an IRI whatever its scheme
ODD_SCHEME_IRIS = ["urn:x:u0", "mailto:u1@ex.org", "tel:+34985000000"]


LIT_KINDS = ["str", "lang", "lang2", "integer", "int", "date", "decimal", "custom", "spaced", "qlang", "qtyped", "ulang"]


def make_lit(kind, k):
    """k in 0..3 selects the lexical form"""
    if kind == "str":
        return ["lit", ["a", "b c", "x1", ""][k], XSD_STRING, ""]
    if kind == "word":
        return ["lit", ["alpha", "beta gamma", "Delta", ""][k], XSD_STRING, ""]
    if kind == "lang":
        return ["lit", ["hola", "b c", "x", "y z"][k], LANGSTRING, "en"]
    if kind == "lang2":
        return ["lit", ["hola", "b c", "x", "y"][k], LANGSTRING, ["en-GB", "es-419", "de-CH-1996", "zh-Hant-TW"][k]]
    if kind == "integer":
        return ["lit", ["0", "1", "-5", "+3"][k], XSD + "integer", ""]
    if kind == "int":
        return ["lit", str(10 + k), XSD + "int", ""]
    if kind == "date":
        return ["lit", "2020-01-0%d" % (k + 1), XSD + "date", ""]
    if kind == "decimal":
        return ["lit", "%d.5" % k, XSD + "decimal", ""]
    if kind == "custom":
        return ["lit", "v%d" % k, CUSTOM_DT, ""]
    if kind == "qlang":
        # language-tagged / typed literals with quotes inside: the kind is read after the CLOSING quote, not after an inner one
        return ["lit", ['she said "hi"', '"', 'a "b" c', '""x'][k], LANGSTRING, "en"]
    if kind == "ulang":
        # characters that str.splitlines() treats as line ends but N-Triples allows inside a literal (only LF and CR end a line)
        return ["lit", ["line\u2028sep", "next\u0085line", "para\u2029graph", "two\u2028breaks\u2028here"][k], LANGSTRING, "en"]
    if kind == "qtyped":
        return ["lit", ['5" disk', '"q"', 'in "quotes" twice "x"', '\\"'][k], CUSTOM_DT, ""]
    if kind == "spaced":
        return ["lit", ["a  b", "x   y z", "two  blanks", " lead"][k], XSD_STRING, ""]
    if kind == "multiline":
        return ["lit", ["line one\nline two", "a\nb\nc", "tab\there", "cr\r\nlf"][k], XSD_STRING, ""]
    raise ValueError(kind)


@st.composite
def general(draw, max_classes=4, max_nodes=7, max_props=4, max_stmts=30, bnodes=True, lit_kinds=None,
            inst_props=(RDF_TYPE,), bnode_classes=False, class_typing=False, min_stmts=1, untyped=True,
            single_ns=False, self_links=True, iri_like_literals=False, hash_props=False, unicode_iris=False, colon_locals=False,
            odd_schemes=False, ns_iris=False, quirks=()):
    """General graphs: 1..max_classes classes, nodes that are IRIs or blank nodes with 0..n classes,
    1..max_props properties; values: literals of several kinds, untyped IRIs / bnodes, typed nodes, the node
    itself.  The statement list is duplicate-free and its order is the document order."""
    lit_kinds = lit_kinds or LIT_KINDS
    iri_like_literals = iri_like_literals or "iri_like_literals" in quirks
    class_typing = class_typing or "class_typing" in quirks
    hash_props = hash_props or "hash_props" in quirks
    unicode_iris = unicode_iris or "unicode_iris" in quirks
    colon_locals = colon_locals or "colon_locals" in quirks
    odd_schemes = odd_schemes or "odd_schemes" in quirks
    ns_iris = ns_iris or "ns_iris" in quirks
    n_classes = draw(st.integers(1, max_classes))
    n_nodes = draw(st.integers(1, max_nodes))
    n_props = draw(st.integers(1, max_props))
    inst_prop = draw(st.sampled_from(list(inst_props)))
    if bnodes:
        is_b = draw(st.lists(st.sampled_from([False, False, False, True]), min_size=n_nodes, max_size=n_nodes))
    else:
        is_b = [False] * n_nodes
    nodes = [["bnode", "_:b%d" % i] if is_b[i] else ["iri", node_iri(i, single_ns)] for i in range(n_nodes)]
    cls_b = bnode_classes and draw(st.booleans())
    classes = [["bnode", "_:c%d" % j] if (cls_b and j == n_classes - 1) else ["iri", class_iri(j)] for j in range(n_classes)]
    if "odd_class_names" in quirks:
        # class IRIs whose local name holds characters that are reserved in prefixed names (DBpedia / Wikipedia style)
        odd = ["Musician,_solo", "Rock&Roll_Band", "What?", "A(b)", "x=y", "it's", "semi;colon", "plus+", "star*", "bang!"]
        classes = [["iri", NS[0] + odd[j % len(odd)]] if (c[0] == "iri" and j % 2 == 0) else c for j, c in enumerate(classes)]
    if "slash_classes" in quirks:
        # class IRIs ending in '/' next to the same IRI without it (http://ex.org/C0 and http://ex.org/C0/)
        classes = [["iri", classes[j - 1][1] + "/"] if (j % 2 == 1 and c[0] == "iri" and classes[j - 1][0] == "iri") else c for j, c in enumerate(classes)]
    if "same_local_classes" in quirks:
        # two classes with one local name in different namespaces (foaf:Person / schema:Person)
        classes = [["iri", NS[j % len(NS)] + "C%d" % (j // 2)] if c[0] == "iri" else c for j, c in enumerate(classes)]
    props = [prop_iri(i) for i in range(n_props)]
    if "shared_locals" in quirks:
        # the same local name in two namespaces (ex:p0 and ns:p0): a prefixed spelling means different IRIs under different bindings
        props = props + [(NS[0] if p.startswith(NS[1]) else NS[1]) + p.rsplit("/", 1)[1] for p in props]
    if hash_props:
        props = props + ["http://ex.org/voc#h0", "http://ex.org/ns/voc#h1"]
    if unicode_iris:
        props = props + ["http://ex.org/propri\u00e9t\u00e9"]
        nodes = [["iri", n[1] + "\u00fc"] if (n[0] == "iri" and i % 3 == 0) else n for i, n in enumerate(nodes)]
    if colon_locals:
        nodes = [["iri", n[1] + ":x%d" % i] if (n[0] == "iri" and i % 2 == 0) else n for i, n in enumerate(nodes)]
    if "urn_nodes" in quirks:
        # URN-like instance IRIs (stems ending in ':')
        nodes = [["iri", "urn:isbn:%d%d" % (i, i)] if (n[0] == "iri" and i % 3 != 1) else n for i, n in enumerate(nodes)]
    if ns_iris:
        # a node whose IRI is exactly a namespace IRI (empty local part), e.g. an ontology node <http://ex.org/ns/>
        nodes = [["iri", NS[i % len(NS)]] if (n[0] == "iri" and i % 3 == 1) else n for i, n in enumerate(nodes)]
    if inst_prop != RDF_TYPE and draw(st.booleans()):
        props = props + [RDF_TYPE]       # rdf:type must be an ordinary property then

    node_ix = st.integers(0, n_nodes - 1)
    vals = [st.tuples(st.just("node"), node_ix), st.tuples(st.just("node"), node_ix)]
    if untyped:
        vals.append(st.tuples(st.just("uiri"), st.integers(0, 2)))
        if bnodes:
            vals.append(st.tuples(st.just("ubnode"), st.integers(0, 1)))
    vals.append(st.tuples(st.sampled_from(lit_kinds), st.integers(0, 3)))
    vals.append(st.tuples(st.sampled_from(lit_kinds[:2] if len(lit_kinds) > 1 else lit_kinds), st.integers(0, 3)))
    if class_typing:
        vals.append(st.tuples(st.just("cls"), st.integers(0, n_classes - 1)))     # a class IRI as an ordinary value
    if iri_like_literals:
        vals.append(st.tuples(st.just("irilit"), node_ix))                        # a literal whose text is a node's IRI
    value = st.one_of(*vals)
    type_stmt = st.tuples(st.just("t"), node_ix, st.integers(0, n_classes - 1))
    prop_stmt = st.tuples(st.just("p"), node_ix, st.integers(0, len(props) - 1), value)
    kinds = [type_stmt, prop_stmt, prop_stmt, prop_stmt]
    if class_typing:
        kinds.append(st.tuples(st.just("ct"), st.integers(0, n_classes - 1), st.integers(0, n_classes - 1)))
    lo = max(min_stmts, draw(st.sampled_from([1, 4, 8, 12, 16, 20])))
    lo = min(lo, max_stmts)
    stmts = draw(st.lists(st.one_of(*kinds), min_size=lo, max_size=max(max_stmts, lo), unique=True))

    triples = []
    seen = set()
    for sm in stmts:
        if sm[0] == "t":
            tr = [nodes[sm[1]], inst_prop, classes[sm[2]]]
        elif sm[0] == "ct":
            if classes[sm[1]][0] != "iri":
                continue
            tr = [classes[sm[1]], inst_prop, classes[sm[2]]]
        else:
            _, ni, pi, (vk, k) = sm
            if vk == "node":
                if not self_links and k == ni:
                    continue
                o = nodes[k]
            elif vk == "uiri":
                o = ["iri", ODD_SCHEME_IRIS[k] if odd_schemes else untyped_iri(k)]
            elif vk == "ubnode":
                o = ["bnode", "_:u%d" % k]
            elif vk == "cls":
                o = classes[k]
            elif vk == "irilit":
                o = ["lit", nodes[k][1], XSD_STRING, ""]
            else:
                o = make_lit(vk, k)
            tr = [nodes[ni], props[pi], o]
        key = repr(tr)
        if key not in seen:
            seen.add(key)
            triples.append(tr)
    return {"triples": triples, "classes": [c[1] for c in classes], "inst_prop": inst_prop}


@st.composite
def call_history(draw, thr, one_in=6):
    """now and then the judged document is the answer to a LATER call on the same Shaper: 1-2 earlier calls (the same or
    another threshold, ShExC or SHACL, to a string or to a file)"""
    if draw(st.integers(0, one_in - 1)) != 0:
        return None
    return [[draw(st.sampled_from([thr, thr, 0, 0.5, 1])), draw(st.sampled_from(["ShEx", "ShEx", "Shacl"])), draw(st.sampled_from(["string", "file"]))]
            for _ in range(draw(st.integers(1, 2)))]


QUIRKS = ["iri_like_literals", "class_typing", "hash_props", "unicode_iris", "colon_locals", "odd_schemes", "ns_iris", "shared_locals", "urn_nodes"]


@st.composite
def quirk_set(draw, allowed=tuple(QUIRKS), one_in=3):
    """unusual but legal naming / typing features of a graph, switched on together now and then"""
    if draw(st.integers(0, one_in - 1)) != 0:
        return []
    return draw(st.lists(st.sampled_from(list(allowed)), min_size=1, max_size=3, unique=True))


THRESHOLDS = [0, 0, 0, 1, 0.5, 0.51, 1 / 3, 2 / 3, 0.25, 0.75, 0.2, 0.4, 0.6, 0.8, 1 / 6, 5 / 6, 1 / 7]


def thresholds():
    return st.one_of(st.sampled_from(THRESHOLDS), st.sampled_from(THRESHOLDS),
                     st.floats(min_value=0.0, max_value=1.0, allow_nan=False))


SWITCHES = ["all_instances_are_compliant_mode", "keep_less_specific",
            "discard_useless_constraints_with_positive_closure", "allow_opt_cardinality"]


@st.composite
def switches(draw, extra=("disable_exact_cardinality", "inverse_paths")):
    cfg = {}
    for name in SWITCHES + list(extra):
        cfg[name] = draw(st.booleans())
    return cfg


# ------------------------------------------------------------------ schema-consistent graphs (C03 strict domain)

@st.composite
def consistent(draw, max_classes=3, max_inst=4, max_props=3, bnode_classes=False, multi_typed_ranges=False):
    """Schema first: per (class, property) a set of literal datatypes and/or one non-literal range
    (node kind x (untyped | one single-typed class)); every link predicate is unique to its domain class so that
    incoming neighbours are homogeneous too; then presence and cardinality are drawn freely per instance."""
    n_classes = draw(st.integers(1, max_classes))
    classes = []
    inst = []
    k = 0
    for j in range(n_classes):
        bn = draw(st.sampled_from([False, False, False, True]))
        n = draw(st.integers(1, max_inst))
        members = []
        for _ in range(n):
            members.append(["bnode", "_:b%d" % k] if bn else ["iri", ("urn:x:n%d" % k) if draw(st.integers(0, 9)) == 0 else node_iri(k)])
            k += 1
        inst.append(members)
        classes.append(["bnode", "_:c%d" % j] if (bnode_classes and j == n_classes - 1 and draw(st.booleans())) else ["iri", class_iri(j)])
    untyped_i = [["iri", untyped_iri(i)] for i in range(3)]
    untyped_b = [["bnode", "_:u%d" % i] for i in range(3)]
    # a multi-typed instance (member of classes 0 and 1); such classes are then never used as a range, so that the
    # neighbours of every (class, property) stay instances of ONE single-typed class (strict domain of C03)
    shared = n_classes >= 2 and draw(st.integers(0, 2)) == 0
    if shared:
        inst[1] = inst[1] + [inst[0][0]]
    # (with disjunctions enabled - 'p @:A OR @:B' - a multi-typed neighbour is covered by every alternative, so such classes
    # may be ranges: multi_typed_ranges)
    # - provided both classes have members of one node kind, else an instance would see IRI and blank-node values (C03-NONLIT)
    same_kind = shared and inst[0][0][0] == inst[1][0][0]
    no_range = {0, 1} if (shared and not (multi_typed_ranges and same_kind)) else set()
    triples = []
    for j in range(n_classes):
        for n in inst[j]:
            triples.append([n, RDF_TYPE, classes[j]])
    pid = 0
    dts = ["str", "lang", "lang2", "integer", "date", "custom", "ulang"]     # lang / lang2 share lexical forms under different tags
    for j in range(n_classes):
        for _ in range(draw(st.integers(0, max_props))):
            p = prop_iri(pid)
            pid += 1
            lits = draw(st.lists(st.sampled_from(dts), max_size=2, unique=True))
            rk = draw(st.sampled_from(["none", "uiri", "ubnode", "class", "class", "umixed"]))
            rng = None
            if rk == "uiri":
                rng = untyped_i
            elif rk == "ubnode":
                rng = untyped_b
            elif rk == "class":
                cand = [c for c in range(n_classes) if c not in no_range]
                # classes with a multi-typed member do not link to typed nodes either: seen from the target, the sources
                # of the incoming links would not be instances of one single-typed class
                rng = inst[draw(st.sampled_from(cand))] if (cand and j not in no_range) else untyped_i
            for n in inst[j]:
                for dt in lits:
                    cnt = draw(st.sampled_from([0, 0, 1, 1, 2, 3]))
                    for x in range(cnt):
                        triples.append([n, p, make_lit(dt, x)])
                if rk == "umixed":
                    # untyped IRI values on some instances, untyped blank nodes on others, never both on one instance
                    rng = untyped_i if draw(st.booleans()) else untyped_b
                if rng:
                    cnt = min(len(rng), draw(st.sampled_from([0, 1, 1, 2, 3])))
                    if cnt:
                        start = draw(st.integers(0, len(rng) - 1))
                        for x in range(cnt):
                            triples.append([n, p, rng[(start + x) % len(rng)]])
    # classes may themselves be typed by a meta class (then, with all_classes_mode, the class nodes are instances too)
    if draw(st.integers(0, 3)) == 0:
        meta = ["iri", NS[0] + "Meta"]
        for j in range(n_classes):
            if classes[j][0] == "iri" and draw(st.booleans()):
                triples.append([classes[j], RDF_TYPE, meta])
    # incoming links from untyped nodes (homogeneous per predicate: all IRI or all blank-node sources)
    for j in range(n_classes):
        for _ in range(draw(st.integers(0, 2))):
            q = prop_iri(pid) + "in"
            pid += 1
            src = untyped_i if draw(st.booleans()) else untyped_b
            mixed_src = draw(st.integers(0, 3)) == 0
            for n in inst[j]:
                if mixed_src:       # IRI sources for some targets, blank-node sources for others, never both for one target
                    src = untyped_i if draw(st.booleans()) else untyped_b
                cnt = draw(st.sampled_from([0, 1, 1, 2, 3]))
                start = draw(st.integers(0, len(src) - 1))
                for x in range(min(cnt, len(src))):
                    tr = [src[(start + x) % len(src)], q, n]
                    if tr not in triples:
                        triples.append(tr)
    perm = draw(st.permutations(range(len(triples))))
    triples = [triples[i] for i in perm]
    return {"triples": triples, "classes": [c[1] for c in classes], "inst_prop": RDF_TYPE,
            "members": {classes[j][1]: [n[1] for n in inst[j]] for j in range(n_classes)}}


NS_DICT_CHOICES = [
    # namespaces that end neither in '/' nor in '#' (OBO style: http://purl.obolibrary.org/obo/RO_)
    {"http://ex.org/n": "nn", "http://ex.org/ns/p": "pp", "http://ex.org/C": "cc"},
    # the namespace is given without its final separator: the local part would begin with '/' or '#' (no prefixed name possible)
    {"http://ex.org/ns": "nsx", "http://other.org/v": "vx", "http://ex.org": "exx"},
    {"http://ex.org/ns/": "ns", "http://ex.org/ns/n": "nsn", "http://other.org/v#C": "vc", "https://data.example/n": "dn"},
    {"http://ex.org/": "ex", "http://www.w3.org/2001/XMLSchema#": "xsd", "http://www.w3.org/1999/02/22-rdf-syntax-ns#": "rdf"},
    {"http://ex.org/ns/": "ns", "http://other.org/v#": "v", "https://data.example/": "d"},
    {"http://ex.org/": "", "http://ex.org/ns/": "weso-s"},
]


@st.composite
def harmless_extras(draw):
    """options that must not change any count, key or cardinality (they only change spelling / add annotations)"""
    cfg = {}
    k = draw(st.integers(0, 11))
    if k in (0, 4, 5):
        cfg["namespaces_dict"] = draw(st.sampled_from(NS_DICT_CHOICES))
    elif k == 1:
        cfg["detect_minimal_iri"] = True
    elif k == 2:
        cfg["disable_or_statements"] = False
        if draw(st.booleans()):
            cfg["allow_redundant_or"] = True
    elif k == 3:
        cfg["infer_numeric_types_for_untyped_literals"] = False
    elif k == 6:
        cfg["instances_cap"] = 1000       # a cap not smaller than every class changes nothing
    elif k == 7:
        cfg["decimals"] = draw(st.sampled_from([1, 2, 3]))      # printed precision only
    return cfg


def scale_graph(n, missing=1, double=1):
    """one class with n instances; property p0 (string) on all but `missing` of them; property p1 (integer) on all, with two
    values on `double` of them; a link p2 from every instance to one of two untyped IRIs.  Used for ratios close to 100 % / 0 %."""
    C = "http://ex.org/C0"
    tr = []
    for i in range(n):
        node = ["iri", "http://ex.org/s%d" % i]
        tr.append([node, RDF_TYPE, ["iri", C]])
        if i >= missing:
            tr.append([node, "http://ex.org/p0", ["lit", "v", XSD_STRING, ""]])
        tr.append([node, "http://ex.org/p1", ["lit", "1", XSD + "integer", ""]])
        if i < double:
            tr.append([node, "http://ex.org/p1", ["lit", "2", XSD + "integer", ""]])
        tr.append([node, "http://ex.org/p2", ["iri", "http://ex.org/u%d" % (i % 2)]])      # untyped targets: no reference chains
    return {"triples": tr, "classes": [C], "inst_prop": RDF_TYPE}


def ladder_graph(n):
    """one class with n instances and one property per k in 1..n-1: property p<k> is held by exactly the first k instances
    (literal for odd k, link to an untyped IRI for even k), and untyped IRI w<k> links to the first k instances through q<k>.
    Every k/n boundary of the class size occurs, in both directions."""
    C = "http://ex.org/C0"
    tr = []
    for i in range(n):
        tr.append([["iri", "http://ex.org/s%d" % i], RDF_TYPE, ["iri", C]])
    for k in range(1, n):
        for i in range(k):
            node = ["iri", "http://ex.org/s%d" % i]
            if k % 2:
                tr.append([node, "http://ex.org/p%d" % k, ["lit", "v", XSD_STRING, ""]])
            else:
                tr.append([node, "http://ex.org/p%d" % k, ["iri", "http://ex.org/u%d" % k]])
            if k % 3 == 0:
                tr.append([["iri", "http://ex.org/w%d" % k], "http://ex.org/q%d" % k, node])
    return {"triples": tr, "classes": [C], "inst_prop": RDF_TYPE}


@st.composite
def table_graph(draw):
    """class-mode cardinality table (see C12.table_case): one class of 4-9 instances, 1-2 properties, per instance 0-3 plain IRI values
    and 0-2 values that are instances of a second class (or no second class); many instances, three-level cardinality frequencies"""
    n = draw(st.integers(4, 9))
    with_E = draw(st.booleans())
    A = "http://ex.org/C0"
    tr = [[["iri", "http://ex.org/a%d" % i], RDF_TYPE, ["iri", A]] for i in range(n)]
    E = ["http://ex.org/e%d" % j for j in range(3)]
    for pi in range(draw(st.integers(1, 2))):
        p = "http://ex.org/p%d" % pi
        lit = draw(st.booleans())
        for i in range(n):
            a = draw(st.sampled_from([0, 1, 1, 1, 2, 2, 3]))
            b = draw(st.sampled_from([0, 0, 1, 1, 2])) if with_E else 0
            for x in range(a):
                tr.append([["iri", "http://ex.org/a%d" % i], p, make_lit("str", x) if lit else ["iri", "http://ex.org/u%d" % x]])
            for x in range(b):
                tr.append([["iri", "http://ex.org/a%d" % i], p, ["iri", E[(i + x) % 3]]])
    if with_E:
        for e in E:
            tr.append([["iri", e], RDF_TYPE, ["iri", "http://ex.org/ns/C1"]])
            if draw(st.booleans()):
                tr.append([["iri", e], "http://ex.org/ns/q", ["lit", "v", XSD_STRING, ""]])
    perm = draw(st.permutations(range(len(tr))))
    return {"triples": [tr[i] for i in perm], "classes": [A] + (["http://ex.org/ns/C1"] if with_E else []), "inst_prop": RDF_TYPE}


@st.composite
def fan_graph(draw):
    """fan-in: 3-6 instances of class C0, each the object of one or two properties from 1-3 subjects out of a pool whose members
    carry different class sets (none, C1, C2, C1+C2, C0): the incoming values of a property are of several kinds with unequal
    frequencies (IRI 3/3, @C1 2/3, @C2 1/3 ...), and which subject of a target is met first depends on the statement order"""
    k = draw(st.integers(3, 6))
    C = [class_iri(0), class_iri(1), class_iri(2)]
    tr = [[["iri", "http://ex.org/o%d" % i], RDF_TYPE, ["iri", C[0]]] for i in range(k)]
    sets = draw(st.lists(st.sampled_from([[], [1], [1], [2], [1, 2], [1, 2], [0], [0, 1]]), min_size=3, max_size=6))
    subs = []
    for j, cs in enumerate(sets):
        node = ["iri", "http://ex.org/s%d" % j] if (cs or draw(st.integers(0, 3))) else ["bnode", "_:s%d" % j]
        subs.append(node)
        for c in cs:
            tr.append([node, RDF_TYPE, ["iri", C[c]]])
        if draw(st.booleans()):
            tr.append([node, "http://ex.org/label", make_lit("str", j % 4)])
    for i in range(k):
        for pi in range(draw(st.integers(1, 2))):
            for j in draw(st.lists(st.integers(0, len(subs) - 1), min_size=0 if pi else 1, max_size=3, unique=True)):
                tr.append([subs[j], "http://ex.org/p%d" % pi, ["iri", "http://ex.org/o%d" % i]])
    perm = draw(st.permutations(range(len(tr))))
    return {"triples": [tr[i] for i in perm], "classes": C, "inst_prop": RDF_TYPE}


def expand(g):
    """graphs may be stored compactly in a case ({"scale": [n, missing, double]}, {"ladder": n})"""
    if "scale" in g:
        return scale_graph(*g["scale"])
    if "ladder" in g:
        return ladder_graph(g["ladder"])
    return g
