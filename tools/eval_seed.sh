#!/bin/bash
# usage: tools/eval_seed.sh <dir with patch.diff + demo.py> <property id> [more property ids...]
# Confirms a seeded change (suite still green, demo fails with / passes without) and runs the named checks against it.
# Evidence / V- replays of these sensitivity runs go to a scratch directory (VF_OUT), never to /verif/evidence.
D="$(realpath "$1")"; shift
cd "$(dirname "$0")/.."
SCR="$(mktemp -d "${TMPDIR:-/tmp}/vfseed.XXXXXX")"
rsync -a --exclude .git --exclude '*.egg-info' --exclude __pycache__ /repo/ "$SCR/clean/"
rsync -a "$SCR/clean/" "$SCR/patched/"
( cd "$SCR/patched" && patch -p1 --no-backup-if-mismatch -s < "$D/patch.diff" ) || { echo "RESULT patch-does-not-apply"; rm -rf "$SCR"; exit 3; }
if [ -z "$SKIP_SUITE" ]; then
echo "--- suite on patched tree"; tools/baseline.sh "$SCR/patched" | head -5; suite=$?
( cd "$D" && PYTHONPATH="$SCR/clean" /venv/bin/python -W ignore demo.py >"$SCR/demo_clean.log" 2>&1 ); dc=$?
( cd "$D" && PYTHONPATH="$SCR/patched" /venv/bin/python -W ignore demo.py >"$SCR/demo_patched.log" 2>&1 ); dp=$?
echo "--- demo: clean exit=$dc patched exit=$dp"; tail -3 "$SCR/demo_patched.log"
fi
for pid in "$@"; do
  t0=$(date +%s)
  out=$(VF_OUT="$SCR/out" VERIF_REPO="$SCR/patched" ./check $pid ${TIER:-quick} 2>&1); rc=$?
  echo "--- check $pid against patched tree: rc=$rc ($(( $(date +%s)-t0 ))s)"; echo "$out" | grep -E "^detail|^VIOLATION|HARNESS" | head -3 | cut -c1-400
done
rm -rf "$SCR"
echo "RESULT suite_rc=$suite demo_clean=$dc demo_patched=$dp"
