"""usage: tools/kf.py <property> <finding-id> <known|fixed> <replay-file-or-'-'> <commit-or-'-'> <what...>
Adds (or replaces) an entry of known_findings.json and copies the replay file to replays/<property>/KF-<id>.json"""
import json, sys, os, shutil
V = os.path.dirname(os.path.dirname(os.path.abspath(__file__)))
pid, fid, status, src, commit = sys.argv[1:6]
what = " ".join(sys.argv[6:])
p = os.path.join(V, "known_findings.json")
kf = json.load(open(p))
entry = dict(property=pid, id=fid, status=status, what=what)
if src != "-":
    dst = os.path.join("replays", pid, "KF-%s.json" % fid)
    os.makedirs(os.path.join(V, "replays", pid), exist_ok=True)
    if os.path.abspath(src) != os.path.abspath(os.path.join(V, dst)):
        shutil.copy(src, os.path.join(V, dst))
    entry["reproducer"] = dst
if commit != "-":
    entry["commit"] = commit
    entry["line"] = "fixed: property=%s %s %s" % (pid, commit, what)
kf["findings"] = [f for f in kf["findings"] if not (f["id"] == fid and f["property"] == pid)] + [entry]
json.dump(kf, open(p, "w"), indent=1)
print("ok", entry)
