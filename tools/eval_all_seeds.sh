#!/bin/bash
# Runs, for every seeded change, the quick check of its own property against a patched scratch copy; prints one line per seed.
cd "$(dirname "$0")/.."
for d in seeded/*/; do
  sid=$(basename "$d"); pid=$(/venv/bin/python -c "import json;print(json.load(open('$d/meta.json'))['property'])")
  t0=$(date +%s)
  out=$(tools/with_patch.sh "$d/patch.diff" ./check $pid quick 2>&1); rc=$?
  git checkout -q -- evidence/$pid.json 2>/dev/null
  echo "$sid $pid rc=$rc $(( $(date +%s)-t0 ))s $(echo "$out" | grep -E '^detail' | head -1 | cut -c1-140)"
done
rm -f replays/*/V-*.json
