#!/bin/bash
# Runs, for every seeded change (or those given as arguments), the quick check of its own property against a patched
# scratch copy; prints one line per seed.  Scratch output only (VF_OUT).
cd "$(dirname "$0")/.."
LIST="${@:-$(ls seeded)}"
for sid in $LIST; do
  d=seeded/$sid
  pid=$(/venv/bin/python -c "import json;print(json.load(open('$d/meta.json'))['property'])")
  t0=$(date +%s)
  O="$(mktemp -d "${TMPDIR:-/tmp}/vfout.XXXXXX")"
  out=$(VF_OUT="$O" tools/with_patch.sh "$d/patch.diff" ./check $pid quick 2>&1); rc=$?
  rm -rf "$O"
  echo "$sid $pid rc=$rc $(( $(date +%s)-t0 ))s $(echo "$out" | grep -E '^detail' | head -1 | cut -c1-140)"
done
