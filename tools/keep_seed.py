"""usage: tools/keep_seed.py <src dir> <seed id> <property> <caught-by checks, comma separated or 'none'> <notes...>
Copies patch.diff, demo.py, meta.json into seeded/<seed id>/ and records what was run here."""
import sys, os, json, shutil
V = os.path.dirname(os.path.dirname(os.path.abspath(__file__)))
src, sid, prop, caught = sys.argv[1:5]
notes = " ".join(sys.argv[5:])
dst = os.path.join(V, "seeded", sid)
os.makedirs(dst, exist_ok=True)
for f in ("patch.diff", "demo.py"):
    shutil.copy(os.path.join(src, f), os.path.join(dst, f))
meta = {}
try:
    meta = json.load(open(os.path.join(src, "meta.json")))
except Exception:
    pass
meta["property"] = prop
meta["confirmed_here"] = ("tools/eval_seed.sh: patch applies to a scratch copy of /repo's working tree; pinned suite still green "
                          "(tools/baseline.sh: stable_missing 0); demo.py exits 0 on the clean copy and 1 on the patched copy")
meta["caught_by"] = [] if caught == "none" else caught.split(",")
if notes:
    meta["notes"] = notes
json.dump(meta, open(os.path.join(dst, "meta.json"), "w"), indent=1)
print("kept", dst, meta["caught_by"])
