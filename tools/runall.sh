#!/bin/bash
# usage: tools/runall.sh [tier] [seed...]   - runs every registered check, prints one line per check
cd "$(dirname "$0")/.."
TIER="${1:-quick}"; shift
SEEDS="${@:-1}"
for s in $SEEDS; do
  for i in $(seq -w 1 20); do
    id="C$i"
    t0=$(date +%s)
    out=$(VERIF_SEED=$s ./check $id $TIER 2>&1); rc=$?
    t1=$(date +%s)
    echo "seed=$s $id rc=$rc $((t1-t0))s $(echo "$out" | grep -c KNOWN-FINDING) known-lines | $(echo "$out" | grep -E "^C[0-9]+ (quick|thorough)" | cut -c1-160)"
    if [ $rc -ne 0 ]; then echo "$out" | tail -15 | cut -c1-600; fi
  done
done
