#!/bin/bash
# usage: tools/with_patch.sh [-R] <patch.diff> <command...>
# Runs <command> with VERIF_REPO pointing to a scratch copy of /repo's working tree with the patch applied; the copy is
# removed afterwards.  Evidence written by the command is restored from git afterwards (sensitivity runs are not evidence).
REV=""
if [ "$1" = "-R" ]; then REV="-R"; shift; fi
PATCH="$(realpath "$1")"; shift
SCR="$(mktemp -d "${TMPDIR:-/tmp}/vfscratch.XXXXXX")"
rsync -a --exclude .git --exclude '*.egg-info' --exclude __pycache__ /repo/ "$SCR/repo/"
( cd "$SCR/repo" && patch -p1 $REV --no-backup-if-mismatch -s < "$PATCH" ) || { echo "patch failed"; rm -rf "$SCR"; exit 3; }
VERIF_REPO="$SCR/repo" "$@"
rc=$?
rm -rf "$SCR"
exit $rc
