"""Regenerates section 9 of DESIGN.md (seeded changes) from seeded/*/meta.json plus the narrative below."""
import json, os
V = os.path.dirname(os.path.dirname(os.path.abspath(__file__)))
NARR = open(os.path.join(V, "tools", "design9_narrative.md")).read()
rows = []
for sid in sorted(os.listdir(os.path.join(V, "seeded"))):
    m = json.load(open(os.path.join(V, "seeded", sid, "meta.json")))
    cl = lambda t, n: (t or "")[:n].replace("\n", " ").replace("|", "/")
    rows.append("| %s | %s | %s | %s | %s |" % (sid, m["property"], cl(m.get("summary"), 170), cl(m.get("needs"), 170), ", ".join(m.get("caught_by") or ["-"])))
out = NARR + "\n| seed | property | change | needs | caught by (quick tier) |\n|----|----|----|----|----|\n" + "\n".join(rows) + "\n"
p = os.path.join(V, "DESIGN.md")
s = open(p).read()
if "\n## 9. Seeded changes" in s:
    s = s[:s.index("\n## 9. Seeded changes")].rstrip("\n") + "\n"
open(p, "w").write(s + "\n" + out)
print("section 9 written:", len(rows), "seeds")
