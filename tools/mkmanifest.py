"""Regenerates MANIFEST.json from the table below (keeps it valid and in sync with the property modules)."""
import json, os
V = os.path.dirname(os.path.dirname(os.path.abspath(__file__)))
TRUST = ("Trusted base: CPython 3.12, Hypothesis 6.168, rdflib 6.0.2 (second opinion on generated documents / SPARQL engine of the "
         "fake endpoint), and the independent oracle modules under vf/ (ShExC reader self-tested against the repository's golden files).")
CHECKS = {}
def add(pid, technique, text, ref, note=""):
    CHECKS[pid] = dict(technique=technique, text=text, ref=ref, note=note)

add("C01", "Hypothesis generators + reference-model oracle (independent profiler recomputes every figure)",
    "Generated-input search: thousands of random graphs x configurations per run; every printed instance count, line figure and comment fact is recomputed from the abstract triples by an independent reference profiler. Exploration, not proof: the space is unbounded, so sampling with construction-biased generators is the right level.", "DESIGN.md 2/C01")
add("C06", "bounded-exhaustive enumeration + Hypothesis + coverage-guided fuzzing (atheris/libFuzzer driving the same strategy); oracle = abstract triples (rdflib cross-checks the generator)",
    "Every literal content up to 3 (quick) / 5 (thorough) tokens of a 24-token adversarial alphabet x every suffix x every tail is enumerated completely and read by the real N-Triples reader; Hypothesis covers longer contents and multi-line documents. Exhaustive within the bound, sampled beyond.", "DESIGN.md 2/C06")
add("C02", "Hypothesis generators + reference-model oracle (expected key set with float n/N >= t semantics, both directions)",
    "Generated graphs with thresholds placed on the k/n boundaries of the class sizes present; the key set and shape set read from the ShExC text must equal the set computed by the reference profiler. Exploration over an unbounded input space.", "DESIGN.md 2/C02")
add("C09", "Hypothesis metamorphic testing (permutation / blank-node renaming) with a reference-model tie detector",
    "Each generated graph is run twice (original, permuted + relabelled); canonical documents must agree; full equality is demanded wherever the reference profiler finds no frequency tie, and the detector itself is validated (a difference without a tie is a violation).", "DESIGN.md 2/C09")
add("C12", "Hypothesis metamorphic testing over threshold grids + reference-model end points",
    "All grid thresholds (every k/n boundary present) are run with fresh Shapers and all ordered pairs compared for key/shape monotonicity and equal figures of surviving alternatives; t=0 and t=1 are compared with the reference profiler.", "DESIGN.md 2/C12")
add("C13", "Hypothesis metamorphic testing, one option flipped at a time, per-option relation on canonical documents",
    "Two fresh Shapers differing in exactly one argument; the relation the property documents for that option is checked on the parsed outputs (structure identity, '?'->'*', {k>1}->'+', relaxation only below 100 %, disjunction over the same alternatives, ratio rounding vs the exact fraction).", "DESIGN.md 2/C13")
add("C03", "Hypothesis generators (schema-consistent graphs) + independent ShEx validator oracle + twin-run metamorphic relation",
    "Every (instance, shape) pair of every generated schema-consistent graph is validated against the parsed ShExC text by an independent ShEx validator (greatest fixed point over shape references); '?' admissibility is checked against the reference profiler and the mode-off twin run must report the cardinalities the mode-on run cites as original.", "DESIGN.md 2/C03")
add("C04", "Hypothesis generators over adversarial graphs x accepted configurations, plus coverage-guided fuzzing (atheris/libFuzzer driving the same strategy); oracle = no exception / no hang, crashes bucketed by (type, innermost frame)",
    "Crash-freedom over generated graphs, configurations, output formats, calls and input syntaxes; known crash buckets are excluded by signature inside the property so that the search continues behind them.", "DESIGN.md 2/C04")
add("C05", "Hypothesis generators + independent grammar-based ShExC reader and rdflib/SHACL graph queries as validity oracle",
    "Every generated document must parse under an independent reader written from the ShExC grammar, have a functional prefix map, unique labels and only defined references; SHACL documents must parse as Turtle with declared node shapes and exactly one path per property shape.", "DESIGN.md 2/C05")
add("C07", "Hypothesis layout generator + bounded-exhaustive separator placements + coverage-guided fuzzing (atheris/libFuzzer driving the same strategy); oracle = abstract triples (rdflib cross-checks the generator); out-of-dialect probes",
    "Documents are laid out from abstract triples by drawn choices (grouping, IRI spellings, separators at every token boundary, comments); all blank/newline placements of pinned documents of <=12 tokens are enumerated; the real streaming reader must yield exactly the abstract triples.", "DESIGN.md 2/C07")
add("C14", "Hypothesis metamorphic testing: G with / without inverse_paths and reverse(G) without",
    "Three runs per generated graph compared on canonical documents: outgoing constraints and instance counts unchanged, incoming constraints equal to the outgoing constraints of the reversed graph (keys, cardinalities, figures, comment facts).", "DESIGN.md 2/C14")
add("C16", "Hypothesis generators + reference-model oracle on the restricted selection / restricted triples + differential run on the filtered document",
    "instances_cap against the reference profiler on the first min(k,|C|) instances in document order (and text equality with the uncapped run when the cap does not bite); namespaces_to_ignore against the reference profiler on the filtered triples and a differential run whose class membership comes from the full graph.", "DESIGN.md 2/C16")
add("C10", "Hypothesis grammar-based generator of targets / shape maps + independent selector evaluator + reference-model oracle",
    "Selectors generated from a grammar are evaluated directly on the abstract triples by an independent evaluator; the labels, instance counts and the full recomputation of figures and key sets restricted to that selection must match the output.", "DESIGN.md 2/C10")
add("C11", "Hypothesis differential testing of the two serialisations of one Shaper (independent ShExC reader vs rdflib/SHACL reader)",
    "Both outputs of one Shaper are parsed into (shape, direction, predicate, restriction, min, max) tuple sets that must be equal under the mapping table of the property.", "DESIGN.md 2/C11")
add("C20", "exhaustive enumeration of the argument groups vs a reference predicate transcribed from the property",
    "No sampling: all presence patterns of the 7 graph sources x 5 target arguments, every single source x valid target x compression x format x examples mode x or-flags, and all threshold x output format x sink combinations are enumerated; raise/no-raise and exception type are compared with a ten-line reference predicate, and every accepted configuration must complete a real extraction (no deferral).", "DESIGN.md 2/C20")
add("C18", "Hypothesis-generated call histories (model-based): every step on one Shaper vs a fresh Shaper with freshly copied arguments",
    "Histories of <=3 operations (shex_graph with format/sink/threshold, profile_graph, construction of another Shaper sharing the namespaces dict) are generated and shrunk as one value; after every step the observed text/file must equal what a fresh object returns for that single call; outputs above 5 000 and 10 000 lines exercise the buffer flush.", "DESIGN.md 2/C18")
add("C17", "Hypothesis generators (IRI families with shared/unshared segments) + recomputation oracle for stems and examples + metamorphic relation",
    "Stems are recomputed as the longest common prefix of the instance IRIs cut back to the last separator; examples must be actual instances / values; the constraints must equal those of a run without the two options.", "DESIGN.md 2/C17")
add("C08", "Hypothesis differential testing across delivery channels (format x source kind x compression x partition) against the raw N-Triples run",
    "Each generated graph is delivered through 4 drawn channels built from real files (gz/xz/zip, several files, file:// URLs, rdflib Graph objects, seven syntaxes) and the canonical document of each must equal that of the reference channel; frequency ties fall back as in C09.", "DESIGN.md 2/C08")
add("C15", "Hypothesis differential testing: endpoint run through an in-process SPARQL evaluator vs local run; cache on vs off; query log",
    "The HTTP client is replaced from outside by an in-process evaluator that answers exactly the query text sheXer sends; the canonical document must equal the local extraction of the same graph, be independent of the cache flag, and caching must never send more queries.", "DESIGN.md 2/C15")
add("C19", "Hypothesis-generated cases executed in fresh subprocesses under several PYTHONHASHSEED values; oracle = byte identity (canonical identity on rdflib-ordered channels)",
    "Every generated case (NT/TSV/Turtle/rdflib/shape-map/endpoint channels) is run in separate interpreter processes with different hash seeds; the ShExC bytes and the canonical SHACL graph must be identical.  Sampling of hash seeds (4 quick / 8 thorough) is stated as the limit of the method.", "DESIGN.md 2/C19")

ALL = ["C%02d" % i for i in range(1, 21)]
def main():
    checks = []
    for pid in ALL:
        if pid not in CHECKS:
            continue
        c = CHECKS[pid]
        checks.append(dict(property_id=pid, quick_cmd="./check %s quick" % pid, thorough_cmd="./check %s thorough" % pid,
                           evidence_file="evidence/%s.json" % pid, replay_cmd_template="./check %s --replay {path}" % pid,
                           engine="vf", level_claimed=dict(category="exploration", text=c["text"], design_ref=c["ref"]),
                           level_note=(c["note"] + " " if c["note"] else "") + TRUST, technique=c["technique"]))
    na = [dict(property_id=pid, reason="check under construction in this session (see DESIGN.md section 2 for the planned check); not yet claimed") for pid in ALL if pid not in CHECKS]
    m = dict(version=1, setup_cmd="./setup.sh",
             hooks=dict(guard="SHEXER_VERIF", enable="none needed: the harness imports shexer from /repo's working tree and substitutes the HTTP client from outside (monkeypatch)",
                        baseline_off_cmd="tools/baseline.sh", source_commits=[], add_only=True),
             engines=[dict(name="vf", path="vf/", serves_properties=sorted(CHECKS), kind_free_text="Python package: Hypothesis strategies, independent oracles (ShExC reader, reference profiler, ShEx validator, selector evaluator), sharded runner")],
             checks=checks, notes="All checks are property-based tests / bounded-exhaustive enumerations with explicit oracles; known findings in known_findings.json.",
             not_applicable=na)
    json.dump(m, open(os.path.join(V, "MANIFEST.json"), "w"), indent=1)
    import jsonschema
    jsonschema.validate(m, json.load(open("/root/.vp/MANIFEST.schema.json")))
    print("MANIFEST.json written:", len(checks), "checks,", len(na), "not_applicable")
if __name__ == "__main__":
    main()
