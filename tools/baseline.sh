#!/bin/bash
# Runs the repository's pinned test suite (guard off) and compares with BASELINE.json's stable_pass list.
# usage: tools/baseline.sh [repo-dir]
REPO_DIR="${1:-/repo}"
OUT="$(mktemp -d)"
unset SHEXER_VERIF
cd "$REPO_DIR" && /venv/bin/python -m pytest -q -p no:cacheprovider --timeout=900 --continue-on-collection-errors --junitxml="$OUT/junit.xml" >"$OUT/log" 2>&1
/venv/bin/python - "$OUT/junit.xml" <<'P'
import json, sys, xml.etree.ElementTree as ET
b = json.load(open('/root/.vp/BASELINE.json'))
stable = set(b['stable_pass'])
res = {}
for tc in ET.parse(sys.argv[1]).iter('testcase'):
    name = tc.get('classname') + '::' + tc.get('name')
    res[name] = not any(c.tag in ('failure', 'error', 'skipped') for c in tc)
missing = [n for n in stable if not res.get(n)]
print("passed", sum(res.values()), "failed", len(res) - sum(res.values()), "stable_missing", len(missing))
for m in sorted(missing):
    print("  BROKEN:", m)
sys.exit(1 if missing else 0)
P
rc=$?
rm -rf "$OUT"
exit $rc
