#!/bin/bash
# Idempotent, offline: make sure hypothesis is importable from /venv.
set -e
cd "$(dirname "$0")"
export PIP_NO_INDEX=1
if ! /venv/bin/python -c "import hypothesis" 2>/dev/null; then
  /venv/bin/pip install --no-index --find-links /opt/veriftools/wheels hypothesis
fi
/venv/bin/python -c "import hypothesis, rdflib; print('hypothesis', hypothesis.__version__, 'rdflib', rdflib.__version__)"
mkdir -p evidence replays
# atheris (coverage-guided supplement of C04/C06/C07) goes to /verif/.deps (git-ignored), not into /venv
if ! /venv/bin/python -c "import sys; sys.path.append('$PWD/.deps'); import atheris" 2>/dev/null; then
  /venv/bin/pip install --no-index --find-links /opt/veriftools/wheels --target "$PWD/.deps" atheris || echo "atheris not installed: the coverage-guided supplement will be skipped"
fi
