#!/bin/bash
# Idempotent, offline: make sure hypothesis is importable from /venv.
set -e
cd "$(dirname "$0")"
export PIP_NO_INDEX=1
if ! /venv/bin/python -c "import hypothesis" 2>/dev/null; then
  /venv/bin/pip install --no-index --find-links /opt/veriftools/wheels hypothesis
fi
/venv/bin/python -c "import hypothesis, rdflib; print('hypothesis', hypothesis.__version__, 'rdflib', rdflib.__version__)"
mkdir -p evidence replays
